// vf_rt.cpp -- runtime for replaying a harness against the REAL build (g++, real Qt) or for
// running ll2c-generated C natively (conformance).  Nondet values come from a recorded stream
// (VF_REPLAY_FILE: whitespace separated integers); when the stream is exhausted 0 is returned.
#include <cstdio>
#include <cstdlib>
#include <cstring>
#include <vector>
extern "C" {
static std::vector<long long> g_vals; static size_t g_pos = 0; static bool g_loaded = false;
static int g_fail = 0;
static void load() {
    if (g_loaded) return; g_loaded = true;
    const char *p = getenv("VF_REPLAY_FILE"); if (!p) return;
    FILE *f = fopen(p, "r"); if (!f) return;
    long long v; while (fscanf(f, "%lld", &v) == 1) g_vals.push_back(v);
    fclose(f);
}
static long long nextv() { load(); return g_pos < g_vals.size() ? g_vals[g_pos++] : 0; }
void vf_assume(bool c) { if (!c) { printf("VF_ASSUME_FALSE\n"); fflush(stdout); _Exit(3); } }
void vf_assert(bool c, const char *msg) { if (!c) { printf("VF_ASSERT_FAIL: %s\n", msg); fflush(stdout); g_fail++; } }
void vf_rt_assert(int c, const char *msg) { vf_assert(c != 0, msg); }
void vf_rt_assume(int c) { vf_assume(c != 0); }
int vf_nondet_int(void) { return (int)nextv(); }
unsigned vf_nondet_uint(void) { return (unsigned)nextv(); }
unsigned short vf_nondet_u16(void) { return (unsigned short)nextv(); }
unsigned char vf_nondet_u8(void) { return (unsigned char)nextv(); }
bool vf_nondet_bool(void) { return (nextv() & 1) != 0; }
long long vf_nondet_i64(void) { return nextv(); }
void vf_witness(void) { printf("VF_WITNESS_REACHED\n"); }
void vf_note(const char *what, long long v) { printf("VF_NOTE %s %lld\n", what, v); }
int vf_nd_count; long long vf_nd_val; unsigned char vf_nd_ok = 1;
void VF_HARNESS(void);
#ifdef VF_LL2C
void __ll2c_global_ctors(void);
#endif
}
#ifdef VF_WRAP_CLOCK
#include <QDate>
#include <QDateTime>
QDate vf_wrap_currentDate(); QDateTime vf_wrap_currentDateTime();
extern "C" QDate __wrap__ZN5QDate11currentDateEv() { return vf_wrap_currentDate(); }
extern "C" QDateTime __wrap__ZN9QDateTime15currentDateTimeEv() { return vf_wrap_currentDateTime(); }
#endif
int main() {
#ifdef VF_LL2C
    __ll2c_global_ctors();
#endif
    VF_HARNESS();
    printf("VF_DONE fails=%d\n", g_fail);
    fflush(stdout);
    _Exit(g_fail ? 1 : 0);
}
