import sys, os; sys.path.insert(0, os.path.join(os.path.dirname(os.path.abspath(__file__)), '..', 'FS'))
import importlib, fs_jobs; importlib.reload(fs_jobs)
from fs_jobs import step, bounds, OUTSIDE, ASSUMPTIONS
P = 5
#                     menu aday dday startup daily compress
JOBS = [
    step(P, 'size',          0, 0, 0, 0, 0, 0),
    step(P, 'daily',         2, 1, 1, 0, 1, 0, extra={'VF_ACTIVE_FIXED': 1}),
    step(P, 'startup_gz',    0, 0, 0, 1, 0, 1, timeout=5400, mem=44, tiers=('thorough',)),
    step(P, 'gz_9_10',       5, 0, 0, 1, 0, 1, timeout=5400, mem=44, tiers=('thorough',)),      # about 25 min (compression: CRC table and loops)
    step(P, 'gzmenu_daily',  3, 1, 1, 0, 1, 0, tiers=('thorough',), timeout=3000, mem=28),
    step(P, 'all_on',        2, 1, 1, 1, 1, 1, tiers=('thorough',), timeout=3600, mem=32),
    step(P, 'size_2writes',  0, 0, 0, 0, 0, 0, ops=2, tiers=('thorough',), timeout=5400, mem=40),
    step(P, 'daily_2writes', 2, 1, 2, 0, 1, 0, extra={'VF_ACTIVE_FIXED': 1}, ops=2, tiers=('thorough',), timeout=5400, mem=40),
]
BOUNDS = {'quick': bounds('size rotation; daily rotation across a day change; (one write each; compression is decided by the thorough jobs and by C08)'),
          'thorough': bounds('plus startup rotation with compression on {.1,.2} and on compressed {.9.gz,.10.gz}, a pre-existing compressed rotated file, all options on, and two writes')}
