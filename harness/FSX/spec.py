JOBS = [dict(name='slice', src='px.cpp', fn='h_slice', defines={'QM_STR_CAP': 8, 'VF_STEP': 0}, unwind=10, timeout=100, cbmc_extra=['--slice-formula'])]
