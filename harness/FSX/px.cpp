#include "vf_prelude.h"
#include "vf_util.h"
extern "C" void h_pat()
{
    QString a = QStringLiteral("a"), d = QStringLiteral("2024-05-11"), l = QStringLiteral("l");
#if VF_STEP >= 1
    QString ea = QRegularExpression::escape(a), ed = QRegularExpression::escape(d), el = QRegularExpression::escape(l);
    vf_assert(ed == QStringLiteral("2024\\-05\\-11"), "escape");
#endif
#if VF_STEP >= 2
    QString pattern = QStringLiteral("^%1\\.%2\\.(\\d+)\\.%3(\\.gz)?$").arg(ea, ed, el);
    vf_assert(pattern == QStringLiteral("^a\\.2024\\-05\\-11\\.(\\d+)\\.l(\\.gz)?$"), "arg");
#endif
#if VF_STEP >= 3
    QRegularExpression re(pattern);
    vf_assert(re.isValid(), "valid");
#endif
#if VF_STEP >= 4
    auto m = re.match(QStringLiteral("a.2024-05-11.12.l.gz"));
    vf_assert(m.hasMatch(), "match");
    vf_assert(m.captured(1).toInt() == 12, "cap");
#endif
    vf_witness();
}
extern "C" void h_pat2()
{
    QFile f(QStringLiteral("/d/a.l"));
    auto fi = QFileInfo(f.fileName());
    const auto baseName = fi.completeBaseName();
    const auto suffix = fi.suffix();
    vf_assert(baseName == QStringLiteral("a"), "base");
    vf_assert(suffix == QStringLiteral("l"), "suffix");
    QDate date = QDate(1, true);
#if VF_STEP >= 2
    bool c = vf_nondet_bool();
    if (c) date = QDateTime(1, vf_range(0, 2)).date(); else date = QDate::currentDate().addDays(1);
#endif
    const auto dateStr = date.toString(QStringLiteral("yyyy-MM-dd"));
    vf_assert(dateStr == QStringLiteral("2024-05-11"), "date");
    QString pattern = QStringLiteral("^%1\\.%2\\.(\\d+)\\.%3(\\.gz)?$").arg(QRegularExpression::escape(baseName), QRegularExpression::escape(dateStr), QRegularExpression::escape(suffix));
    vf_assert(pattern == QStringLiteral("^a\\.2024\\-05\\-11\\.(\\d+)\\.l(\\.gz)?$"), "arg");
    QRegularExpression re(pattern);
    vf_assert(re.isValid(), "valid");
    vf_witness();
}
extern "C" void h_slice()
{
    int a = vf_range(0, 5); int b = vf_range(0, 5); int c = vf_range(0, 5); bool d = vf_nondet_bool(); int e = vf_range(0, 9);
    int unrelated = b * 3 + e;
    vf_assert(a != 3 || unrelated < 0, "slice-test");
    vf_witness();
}
