// C19 (handler-history clause only): install / restore of Qt's message handler.
// Units: Logger::installMessageHandler, Logger::restorePreviousMessageHandler (logger.cpp) over qInstallMessageHandler.
// The configuration front-ends (configure.cpp) are NOT decided here -- see DESIGN.md section 8.
#include "vf_prelude.h"
#include "vf_util.h"
#include "pipeline.cpp"
#include "sortedpipeline.cpp"
#include "simplepipeline.cpp"
#include "configure.cpp"
#include "logger.cpp"
#include "vf_rest_of_repo.h"
using namespace QtLogger;
#ifndef VF_OPS
#define VF_OPS 5
#endif
static void foreign1(QtMsgType, const QMessageLogContext &, const QString &) { }
static void foreign2(QtMsgType, const QMessageLogContext &, const QString &) { }
static QtMessageHandler current_handler() { QtMessageHandler h = qInstallMessageHandler(nullptr); qInstallMessageHandler(h); return h; }
extern "C" void h_handlers()
{
    Logger a, b;
    QtMessageHandler def = current_handler();                 // Qt's default handler
    // reference state: 0 = default, 1 = foreign1, 2 = foreign2, 3 = the logger's handler
    int cur = 0, rem = -1;                                    // rem: handler to reinstate, -1 = nothing remembered
    bool foreignSinceInstall = false;
    for (int i = 0; i < VF_OPS; ++i) {
        int op = vf_range(0, 4);
        if (op == 0 || op == 1) {
            // a foreign handler slipped in between two installs without a restore: which one "was active before the logger was
            // first installed" is not defined by the statement -> outside the checked histories
            vf_assume(!(rem >= 0 && cur != 3));
            if (op == 0) a.installMessageHandler(); else b.installMessageHandler();
            if (cur != 3) rem = cur;
            cur = 3;
            vf_assert(current_handler() == Logger::messageHandler, "install makes the logger's handler the active Qt message handler");
        } else if (op == 2) {
            Logger::restorePreviousMessageHandler();
            if (rem >= 0) { if (cur == 3) cur = rem; rem = -1; }
        } else {
            qInstallMessageHandler(op == 3 ? foreign1 : foreign2);
            cur = op == 3 ? 1 : 2;
        }
        QtMessageHandler h = current_handler();
        QtMessageHandler want = cur == 0 ? def : cur == 1 ? foreign1 : cur == 2 ? foreign2 : Logger::messageHandler;
        vf_assert(h == want, "after every install / restore / foreign install the active Qt message handler is the one the rule prescribes");
    }
    vf_witness();
}
