JOBS = [
    dict(name='handlers', src='c19.cpp', fn='h_handlers', defines={'QM_STR_CAP': 24, 'QM_LIST_CAP': 4, 'QM_HASH_CAP': 2, 'VF_OPS': 5}, defines_thorough={'VF_OPS': 7}, unwind=28, unwind_patterns={'h_handlers': 9}, timeout=900),
]
BOUNDS = {'quick': 'every history of 5 operations over {install (two loggers), restore, foreign handler 1, foreign handler 2}', 'thorough': 'histories of 7 operations'}
OUTSIDE = 'THE CONFIGURATION FRONT-ENDS (INI keys, one-line configure(), end-to-end outputs) ARE NOT DECIDED; histories in which a foreign handler is installed between two installs without a restore (the statement does not say which handler is "the one before the first install")'
ASSUMPTIONS = ['qInstallMessageHandler returns the previous handler; nullptr restores the default handler (Qt contract)']
