// C11: a fatal message and everything before it reach the log file.
// Units: logger.cpp (processMessage), simplepipeline.cpp (flush / recursiveFlush), filesink.cpp, iodevicesink.cpp,
// rotatingfilesink.cpp over the file-system model with a user-space write buffer: bytes become durable only when the buffer
// exceeds its threshold, on flush() or close().  "The process dies" right after processMessage(QtFatalMsg) returns (Qt aborts
// after the handler): the harness then reads what is DURABLE.
#include "vf_prelude.h"
#include "vf_util.h"
#include "pipeline.cpp"
#include "sortedpipeline.cpp"
#include "simplepipeline.cpp"
#include "configure.cpp"
#include "logger.cpp"
#include "sinks/iodevicesink.cpp"
#include "sinks/filesink.cpp"
#include "sinks/rotatingfilesink.cpp"
#define VF_HAVE_FILESINKS 1
#include "vf_rest_of_repo.h"
#include "../FS/vf_env.h"
using namespace QtLogger;
#ifndef VF_N
#define VF_N 2
#endif
extern "C" void h_fatal()
{
    env_init();
    env_clock(0, 0);
    env_bufsize(vf_range(0, 12));          // write-buffer threshold (real Qt: 16 KiB; any threshold must be safe)
    Logger lg;
#ifndef VF_ROTATING
#define VF_ROTATING 0
#endif
#ifndef VF_NESTEDP
#define VF_NESTEDP 0
#endif
    const bool rotating = VF_ROTATING, nested = VF_NESTEDP;      // fixed per job (all four combinations are jobs)
    QString path = env_path(QStringLiteral("a.l"));
    SinkPtr sink;
    if (rotating) sink = RotatingFileSinkPtr::create(path, 0, 0, RotatingFileSink::RotationDaily);
    else sink = FileSinkPtr::create(path);
    if (VF_NESTEDP == 2) { lg.pipeline().end(); lg.pipeline().append(sink); }     // an empty nested pipeline first, the file sink in the second one
    else if (nested) lg.pipeline().append(sink); else lg.append(sink);
    QMessageLogContext ctx("f", 1, "fn", "c");
    int n = vf_range(0, VF_N);
    QByteArray expect; expect = QByteArray("");
    for (int i = 0; i < VF_N; ++i) {
        int size = vf_range(1, 3);
        if (i < n) {
            QString text = QStringLiteral("");
            for (int k = 0; k < 3; ++k) if (k < size) text.append(QChar(ushort('A' + i)));
            lg.processMessage((QtMsgType)vf_range(0, 2), ctx, text);      // debug / warning / critical
            expect.append(text.toUtf8()); expect.append("\n");
        }
    }
    lg.processMessage(QtFatalMsg, ctx, QStringLiteral("Z"));
    expect.append("Z\n");
    // --- the process is gone: only durable bytes remain
    QByteArray onDisk = env_read(QStringLiteral("a.l"));
    vf_assert(onDisk == expect, "after a fatal message the file holds every earlier message and the fatal one");
    vf_witness();
}
