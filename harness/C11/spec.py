JOBS = [
    dict(name='fatal', src='c11.cpp', fn='h_fatal', defines={'QM_STR_CAP': 48, 'QM_LIST_CAP': 7, 'QM_HASH_CAP': 2, 'QM_FS_SLOTS': 3, 'QM_FS_FCAP': 16, 'QM_RX_MAXSEG': 16, 'VF_N': 2}, defines_thorough={'VF_N': 4, 'QM_FS_FCAP': 24}, unwind=50,
         unwind_patterns={'h_fatal': 6, 'recursiveFlush': 6, 'Pipeline7process': 6}, unwindset={'_ZN8QtLogger14SimplePipeline14recursiveFlushEPKNS_8PipelineE': 4, '_ZN8QtLogger8Pipeline7processERNS_10LogMessageE': 4}, timeout=2400, mem=24, real_wrap_clock=True),
]
BOUNDS = {'quick': '0..2 preceding messages of 1..3 bytes, every write-buffer threshold 0..12 bytes (so that records may or may not have left the buffer), plain FileSink or RotatingFileSink, directly in the logger or in a nested pipeline; synchronous logger', 'thorough': '0..4 preceding messages'}
OUTSIDE = 'asynchronous mode (the property speaks of the synchronous logger); the one-line configure() front-end (see C19); a fatal raised while another thread is inside a sink (C02)'
ASSUMPTIONS = ['Qt aborts the process right after the message handler returns from a fatal message', 'file-system model with user-space write buffer (qtmodel/qm_fs.h)']
