D = {'QM_STR_CAP': 24, 'QM_LIST_CAP': 4, 'QM_HASH_CAP': 2, 'QM_FS_SLOTS': 2, 'QM_FS_FCAP': 12, 'QM_RX_MAXSEG': 16, 'VF_N': 1}
UP = {'h_fatal': 6, 'recursiveFlush': 6, 'Pipeline7process': 6}
REC = {'_ZN8QtLogger14SimplePipeline14recursiveFlushEPKNS_8PipelineE': 4, '_ZN8QtLogger8Pipeline7processERNS_10LogMessageE': 4}
JOBS = []
for r_, n_ in ((0, 0), (0, 1), (0, 2), (1, 0), (1, 1)):
    JOBS.append(dict(name='fatal_r%dn%d' % (r_, n_), src='c11.cpp', fn='h_fatal', defines=dict(D, VF_ROTATING=r_, VF_NESTEDP=n_), defines_thorough={'VF_N': 3, 'QM_FS_FCAP': 20}, unwind=28, unwind_patterns=UP, unwindset=REC,
                     timeout=2400, mem=20, real_wrap_clock=True, tiers=['quick', 'thorough'] if (r_, n_) in ((0, 0), (0, 1), (0, 2)) else ['thorough']))
BOUNDS = {'quick': '0..1 preceding messages of 1..3 bytes, every write-buffer threshold 0..12 bytes (so that records may or may not have left the buffer), plain FileSink directly in the logger or in a nested pipeline or in the second of two nested pipelines (RotatingFileSink variants: thorough); synchronous logger', 'thorough': '0..4 preceding messages'}
OUTSIDE = 'asynchronous mode (the property speaks of the synchronous logger); the one-line configure() front-end (see C19); a fatal raised while another thread is inside a sink (C02)'
ASSUMPTIONS = ['Qt aborts the process right after the message handler returns from a fatal message', 'file-system model with user-space write buffer (qtmodel/qm_fs.h)']
