// File-sink family (C05, C06, C07, C08, C09, C10, C11): the real sinks/rotatingfilesink.cpp, filesink.cpp, iodevicesink.cpp
// over the environment of vf_env.h.  A history of VF_OPS operations (writes of symbolic size, clock ticks and day changes,
// sink restarts) with symbolic options / size limit / file-count limit is executed; after every operation the directory is
// read back and decoded.  Records carry their index in every byte ('A'+k repeated), so any file decodes unambiguously.
// VF_PROP selects which property's assertions are active in a job.
#include "vf_prelude.h"
#include "vf_util.h"
#include "sinks/iodevicesink.cpp"
#include "sinks/filesink.cpp"
#include "sinks/rotatingfilesink.cpp"
#include "vf_env.h"
#ifdef VF_REAL
#include <zlib.h>
#endif
using namespace QtLogger;

#ifndef VF_OPS
#define VF_OPS 3
#endif
#ifndef VF_PROP
#define VF_PROP 5
#endif
#ifndef VF_PRE
#define VF_PRE 0           // records that exist before the harness' first write (h_fs_step)
#endif
#define MAXREC (VF_PRE + VF_OPS)
#define P(n) (VF_PROP == (n))

static const QMessageLogContext g_ctx("f.c", 1, "fn", "c");
static const char *const BASE = "a.l";          // log file "a.l": complete base name "a", suffix "l"

struct RecInfo { int size; bool mb; int day; bool written; };
static RecInfo g_rec[MAXREC];

// reference CRC-32 (bitwise, reflected, poly EDB88320) -- independent of the table-driven implementation under test
static unsigned ref_crc32(const QByteArray &d)
{
    unsigned crc = 0xFFFFFFFFu;
    for (int i = 0; i < d.size(); ++i) {
        crc ^= (unsigned char)d.at(i);
        for (int k = 0; k < 8; ++k) crc = (crc >> 1) ^ (0xEDB88320u & (0u - (crc & 1u)));
    }
    return crc ^ 0xFFFFFFFFu;
}
// independent gunzip: real build = zlib (checks CRC and ISIZE); model build = the framing contract of the qCompress stub
static QByteArray env_gunzip(const QByteArray &gz, bool *ok)
{
    *ok = false;
#ifdef VF_REAL
    z_stream s; memset(&s, 0, sizeof s);
    if (inflateInit2(&s, 16 + MAX_WBITS) != Z_OK) return QByteArray();
    QByteArray out(1 << 16, 0);
    s.next_in = (Bytef *)gz.constData(); s.avail_in = gz.size(); s.next_out = (Bytef *)out.data(); s.avail_out = out.size();
    int rc = inflate(&s, Z_FINISH);
    int n = int(s.total_out); bool consumed = s.avail_in == 0;
    inflateEnd(&s);
    if (rc != Z_STREAM_END || !consumed) return QByteArray();
    out.truncate(n); *ok = true; return out;
#else
    static const unsigned char hdr[10] = { 0x1f, 0x8b, 0x08, 0x00, 0, 0, 0, 0, 0x00, 0x03 };
    const int n = gz.size();
    if (n < 10 + 1 + 8) return QByteArray();
    bool h = true;
    for (int i = 0; i < 10; ++i) if ((unsigned char)gz.at(i) != hdr[i]) h = false;
    if (!h || (unsigned char)gz.at(10) != 0x01) return QByteArray();      // deflate data of the stub: marker + raw bytes
    QByteArray raw = gz.mid(11, n - 11 - 8);
    unsigned crc = 0, isz = 0;
    for (int i = 0; i < 4; ++i) { crc |= unsigned((unsigned char)gz.at(n - 8 + i)) << (8 * i); isz |= unsigned((unsigned char)gz.at(n - 4 + i)) << (8 * i); }
    if (crc != ref_crc32(raw) || isz != unsigned(raw.size())) return QByteArray();
    *ok = true; return raw;
#endif
}

// reference gzip writer for pre-state files (model build: the framing contract of the qCompress stub; real build: zlib)
static QByteArray ref_gzip(const QByteArray &raw)
{
#ifdef VF_REAL
    z_stream s; memset(&s, 0, sizeof s);
    deflateInit2(&s, 5, Z_DEFLATED, 16 + MAX_WBITS, 8, Z_DEFAULT_STRATEGY);
    QByteArray out(1 << 12, 0);
    s.next_in = (Bytef *)raw.constData(); s.avail_in = raw.size(); s.next_out = (Bytef *)out.data(); s.avail_out = out.size();
    deflate(&s, Z_FINISH); int n = int(s.total_out); deflateEnd(&s);
    out.truncate(n); return out;
#else
    static const unsigned char hdr[10] = { 0x1f, 0x8b, 0x08, 0x00, 0, 0, 0, 0, 0x00, 0x03 };
    QByteArray g; g = QByteArray("");
    for (int i = 0; i < 10; ++i) g.append(char(hdr[i]));
    g.append(char(0x01)); g.append(raw);
    unsigned crc = ref_crc32(raw), n = unsigned(raw.size());
    for (int i = 0; i < 4; ++i) g.append(char((crc >> (8 * i)) & 0xff));
    for (int i = 0; i < 4; ++i) g.append(char((n >> (8 * i)) & 0xff));
    return g;
#endif
}

// decoded view of one log file: the records it holds (indices into g_rec), in order
struct FileView { bool ours; bool active; bool gz; bool wellFormed; int first, last, count; int bytes; int nameDay; int nameIndex; };

static bool parse_rotated_name(const QString &name, bool *gz, int *day, int *index)
{
    // a.<yyyy-MM-dd>.<index>.l[.gz]
    QString n = name; *gz = false;
    if (n.endsWith(QStringLiteral(".gz"))) { *gz = true; n.chop(3); }
    if (!n.startsWith(QStringLiteral("a.2024-05-")) || !n.endsWith(QStringLiteral(".l"))) return false;
    QString mid = n.mid(10, n.size() - 10 - 2);          // "dd.<index>"
    if (mid.size() < 4 || mid.at(2).unicode() != '.') return false;
    int d = (mid.at(0).unicode() - '0') * 10 + (mid.at(1).unicode() - '0');
    QString idx = mid.mid(3);
    int v = 0; bool digits = idx.size() > 0;
    for (int i = 0; i < idx.size(); ++i) { ushort c = idx.at(i).unicode(); if (c < '0' || c > '9') digits = false; else v = v * 10 + (c - '0'); }
    if (!digits) return false;
    *day = d - ENV_DAY0_D; *index = v;
    return true;
}

static void decode(const QByteArray &raw, FileView &fv)
{
    fv.wellFormed = true; fv.first = -1; fv.last = -1; fv.count = 0; fv.bytes = raw.size();
    int pos = 0; const int n = raw.size();
    for (int r = 0; r < MAXREC + 1; ++r) if (pos < n) {
        // one record: bytes of one id, then '\n'
        int id = -1; int len = 0; bool mb = false;
        unsigned char c0 = (unsigned char)raw.at(pos);
        if (c0 == '\n') { fv.wellFormed = false; pos = n; continue; }     // empty records are written with an id byte? (size 0 = just newline) handled below
        if (c0 == 0xc3) mb = true;
        for (int k = 0; k < 8; ++k) if (pos + len < n && (unsigned char)raw.at(pos + len) != '\n') ++len;     // (records are at most 2 x VF_SMAX bytes)
        if (pos + len >= n) { fv.wellFormed = false; pos = n; continue; }  // no terminating newline: split or truncated record
        // identify: 'A'+id repeated, or (multi-byte) c3 (a0+id) pairs
        if (!mb) { id = c0 - 'A'; for (int k = 0; k < 8; ++k) if (k < len && (unsigned char)raw.at(pos + k) != c0) fv.wellFormed = false; }
        else { id = (unsigned char)raw.at(pos + 1) - 0xa0; for (int k = 0; k < 8; ++k) if (k < len && (unsigned char)raw.at(pos + k) != ((k & 1) ? (unsigned char)(0xa0 + id) : 0xc3)) fv.wellFormed = false; }
        if (id < 0 || id >= MAXREC) { fv.wellFormed = false; pos = n; continue; }
        if (!g_rec[id].written || g_rec[id].mb != mb || len != (mb ? 2 : 1) * g_rec[id].size) fv.wellFormed = false;
        if (fv.count > 0 && id != fv.last + 1) fv.wellFormed = false;        // consecutive, in order
        if (fv.count == 0) fv.first = id;
        fv.last = id; ++fv.count;
        pos += len + 1;
    }
}

#ifndef QM_LIST_CAP
#define QM_LIST_CAP_OR(x) (x)
#else
#define QM_LIST_CAP_OR(x) QM_LIST_CAP
#endif
static RotatingFileSink *g_sink;
static int g_L, g_N; static bool g_startup, g_daily, g_compress;
static void make_sink()
{
    RotatingFileSink::Options o = RotatingFileSink::None;
    if (g_startup) o |= RotatingFileSink::RotationOnStartup;
    if (g_daily) o |= RotatingFileSink::RotationDaily;
    if (g_compress) o |= RotatingFileSink::Compression;
    g_sink = new RotatingFileSink(env_path(QString::fromLatin1(BASE)), g_L, g_N, o);
}

static bool g_present[MAXREC];
static void check_directory(int nwritten)
{
    QStringList names = env_list();
    bool present[MAXREC]; int fileOf[MAXREC];
    for (int i = 0; i < MAXREC; ++i) { present[i] = false; fileOf[i] = -1; }
    int nOurs = 0, nRotated = 0; bool activeExists = false;
    int rDay[QM_LIST_CAP_OR(8)], rIdx[QM_LIST_CAP_OR(8)], rFirst[QM_LIST_CAP_OR(8)]; bool rGz[QM_LIST_CAP_OR(8)]; int nR = 0;     // rotated files seen: name day, name index, first record
    for (int fi = 0; fi < QM_LIST_CAP_OR(8); ++fi) if (fi < names.size()) {
        QString name = names.at(fi);
        FileView fv; fv.ours = false; fv.active = name == QString::fromLatin1(BASE); fv.gz = false; fv.nameDay = 0; fv.nameIndex = 0;
        bool rotated = parse_rotated_name(name, &fv.gz, &fv.nameDay, &fv.nameIndex);
        if (!fv.active && !rotated) continue;          // a foreign file: not ours to look at
        ++nOurs; if (rotated) ++nRotated; if (fv.active) activeExists = true;
        QByteArray raw = env_read(name);
        if (fv.gz) {
#if defined(VF_COMPRESS) && VF_COMPRESS == 0 && (!defined(VF_MENU) || VF_MENU < 3)
            vf_assert(false, "a compressed file appeared although compression is off");      // (keeps the gunzip reference out of jobs that cannot need it)
            continue;
#endif
            bool ok; raw = env_gunzip(raw, &ok);
            if (P(8)) vf_assert(ok, "compressed rotated file is a complete gzip stream with matching CRC-32 and length");
            if (!ok) continue;
        }
        decode(raw, fv);
        if (P(5)) vf_assert(fv.wellFormed, "every log file decodes into whole records, in order, each ended by exactly one newline");
        if (!fv.wellFormed) continue;
        for (int r = 0; r < MAXREC; ++r) if (fv.count > 0 && r >= fv.first && r <= fv.last) {
            if (P(5)) vf_assert(!present[r], "no record appears twice");
            present[r] = true; fileOf[r] = fi;
        }
        if (P(7) && g_L > 0 && g_N != 1) vf_assert(fv.bytes <= g_L || fv.count == 1, "no file outgrows the size limit unless it is a single over-long record");
        if (P(9) && g_daily && g_N != 1 && fv.count > 0) {
            bool sameDay = true;
            for (int r = 0; r < MAXREC; ++r) if (r >= fv.first && r <= fv.last && g_rec[r].day != g_rec[fv.first].day) sameDay = false;
            vf_assert(sameDay, "daily rotation: records of different days never share a file");
            if (rotated) vf_assert(fv.nameDay == g_rec[fv.first].day, "daily rotation: a rotated file's name carries the day its records were written");
        }
        if (P(6) && g_N == 1) vf_assert(!rotated, "file-count limit 1: no rotated file is ever produced");
        if (P(9) && rotated && fv.count > 0) {
            for (int q = 0; q < QM_LIST_CAP_OR(8); ++q) if (q == nR) { rDay[q] = fv.nameDay; rIdx[q] = fv.nameIndex; rFirst[q] = fv.first; rGz[q] = fv.gz; }
            ++nR;
        }
    }
    for (int i = 0; i < MAXREC; ++i) g_present[i] = present[i];
    if (P(9) && g_N != 1) {
        // rotated names are never reused: per name day the indices are distinct and increase in rotation order (= record order);
        // a plain file and its own compressed copy (left by a crash between compression and removal) are the same rotation
        for (int a = 0; a < QM_LIST_CAP_OR(8); ++a) for (int b = 0; b < QM_LIST_CAP_OR(8); ++b) if (a < nR && b < nR && a != b && rDay[a] == rDay[b]) {
            const bool twin = rIdx[a] == rIdx[b] && rFirst[a] == rFirst[b] && rGz[a] != rGz[b];
            if (!twin) vf_assert((rFirst[a] < rFirst[b]) == (rIdx[a] < rIdx[b]) && rIdx[a] != rIdx[b], "within a day the indices of rotated files are unique and increase in rotation order");
        }
    }
    // history accounting
    int firstPresent = -1; bool gap = false; int missing = 0;
    for (int r = 0; r < MAXREC; ++r) if (r < nwritten) {
        if (present[r]) { if (firstPresent < 0) firstPresent = r; }
        else { ++missing; if (firstPresent >= 0) gap = true; }
    }
    if (P(5)) {
        vf_assert(!gap, "records that are still there form one contiguous stretch ending with the newest (nothing lost in the middle)");
        if (g_N <= 0 || g_N == 1) vf_assert(missing == 0, "without a retention limit no record is ever missing");
    }
    if (P(6)) {
        if (g_N >= 2) vf_assert(nOurs <= g_N, "at most N log files exist after a write");
        if (g_N <= 0) vf_assert(missing == 0, "N <= 0: nothing is ever deleted");
        if (g_N >= 2) vf_assert(!gap, "retention removes only the oldest rotated files (survivors are a contiguous most-recent stretch)");
    }
    if (P(5) && nwritten > 0) vf_assert(present[nwritten - 1], "the newest record is in the directory");
}

extern "C" void h_fs_hist()
{
    env_init();
    g_L = vf_range(0, VF_LMAX); g_N = vf_range(-1, 3);
#ifdef VF_NFIX
    g_N = VF_NFIX;
#endif
#ifdef VF_NORESTART
#define VF_RESTART_EXPR false
#else
#define VF_RESTART_EXPR vf_nondet_bool()
#endif
    g_startup = vf_nondet_bool(); g_daily = vf_nondet_bool(); g_compress = vf_nondet_bool();
    // option bits can be fixed per job (the jobs of one property together cover all combinations)
#ifdef VF_STARTUP
    g_startup = VF_STARTUP;
#endif
#ifdef VF_DAILY
    g_daily = VF_DAILY;
#endif
#ifdef VF_COMPRESS
    g_compress = VF_COMPRESS;
#endif
#ifdef VF_NO_COMPRESS
    g_compress = false;
#endif
    int day = vf_range(0, 1), ms = 0;
    env_clock(day, ms);
    make_sink();
    int nwritten = 0;
    for (int op = 0; op < VF_OPS; ++op) {
        // clock: 0..2 ticks (0 = same timestamp as the previous operation), possibly a day change
        int tick = vf_range(0, 2); int dday = vf_range(0, 2);
        ms += tick; day += dday; if (dday) ms = 0;
        vf_assume(day <= 5);
        env_clock(day, ms);
        bool restart = VF_RESTART_EXPR;
        if (restart) { delete g_sink; env_after_op(); make_sink(); }
        int size = vf_range(0, VF_SMAX); bool mb = vf_nondet_bool();
        RecInfo &ri = g_rec[nwritten];
        ri.size = size; ri.mb = mb; ri.day = day; ri.written = true;
        QString text = QStringLiteral("");
        for (int i = 0; i < VF_SMAX; ++i) if (i < size) text.append(QChar(ushort(mb ? 0xe0 + nwritten : 'A' + nwritten)));
        // (size 0 would be an empty record = a bare newline, which no decoder can attribute: records have >= 1 character)
        vf_assume(size >= 1);
        LogMessage msg(QtInfoMsg, g_ctx, text);
        g_sink->send(msg);
        g_sink->flush();
        env_after_op();
        ++nwritten;
        check_directory(nwritten);
    }
    vf_witness();
}

// ------------------------------------------------------------------------------------------------------------------
// h_fs_step: the INDUCTIVE form of the file-sink properties.  Instead of a history from the empty directory, the directory
// the sink finds is arbitrary within a menu: the active file a.l and up to two rotated files with concrete names (menu
// VF_MENU, listed in rotation order = the order in which they were produced), each present or not, each holding a symbolic
// number of whole records, with symbolic modification times that are non-decreasing in rotation order (TIES INCLUDED) --
// what earlier runs of the sink can leave behind -- plus foreign files that merely look similar.  A new sink is started on
// that directory (a restart) and VF_OPS records are written with clock ticks / day changes; after every write the directory
// is decoded and the active property's assertions are evaluated.  Assumed about the pre-state: exactly what the property
// asserts about the post-state (so that the step composes to histories of any length).
#ifndef VF_MENU
#define VF_MENU 0
#endif
#ifndef VF_ADAY
#define VF_ADAY 1
#endif
#ifndef VF_DDAY
#define VF_DDAY 0          // bit k: the day changes before write k
#endif
struct MenuEntry { const char *name; int day; };
#define NMENU 2
#if VF_MENU == 0
static const MenuEntry MENU[NMENU] = { { "a.2024-05-10.1.l", 0 }, { "a.2024-05-10.2.l", 0 } };
#elif VF_MENU == 1
static const MenuEntry MENU[NMENU] = { { "a.2024-05-10.9.l", 0 }, { "a.2024-05-10.10.l", 0 } };      // rotation order 9 then 10; name order is the reverse
#elif VF_MENU == 2
static const MenuEntry MENU[NMENU] = { { "a.2024-05-10.1.l", 0 }, { "a.2024-05-11.1.l", 1 } };
#elif VF_MENU == 3
static const MenuEntry MENU[NMENU] = { { "a.2024-05-10.1.l.gz", 0 }, { "a.2024-05-11.3.l", 1 } };     // a compressed older file (index taken as .gz), a gap in the indices
#elif VF_MENU == 4
static const MenuEntry MENU[NMENU] = { { "a.2024-05-10.1.l.gz", 0 }, { "a.2024-05-10.2.l.gz", 0 } };  // compressed leftovers of the day (e.g. from a run with compression on)
#elif VF_MENU == 5
static const MenuEntry MENU[NMENU] = { { "a.2024-05-10.9.l.gz", 0 }, { "a.2024-05-10.10.l.gz", 0 } }; // compressed, two-digit index
#endif
#define MENU_GZ(f) ((VF_MENU == 3 && (f) == 0) || VF_MENU == 4 || VF_MENU == 5)
static const char *const FOREIGN[2] = { "a.2024-05-10.1.l.bak", "b.2024-05-10.1.l" };

static QByteArray rec_bytes(int id, int size)
{
    QByteArray b; b = QByteArray("");
    for (int i = 0; i < VF_SMAX; ++i) if (i < size) b.append(char('A' + id));
    b.append('\n');
    return b;
}

// debugging aid: -DVF_CUT=n ends the harness early at cut point n (used to locate what is expensive for the solver)
#ifdef VF_CUT
#define VF_CUT_AT(n) do { if (VF_CUT == (n)) { vf_witness(); return; } } while (0)
#else
#define VF_CUT_AT(n) do { } while (0)
#endif
// the symbolic pre-state shared by h_fs_step and h_fs_crash; returns the number of records it holds
static int fs_prestate(bool *foreign, int *pLastMs)
{
    env_init();
    g_L = vf_range(0, VF_LMAX); g_N = vf_range(-1, 4);
    g_startup = vf_nondet_bool(); g_daily = vf_nondet_bool(); g_compress = false;
#ifdef VF_STARTUP
    g_startup = VF_STARTUP;
#endif
#ifdef VF_DAILY
    g_daily = VF_DAILY;
#endif
#ifdef VF_COMPRESS
    g_compress = VF_COMPRESS;
#endif
    // ---- pre-state.  Days are CONCRETE per job (VF_ADAY: day of the active file's last write, VF_DDAY: day change before
    // each write; rotated files were last written on the day in their name), so that date strings and the expressions built
    // from them are concrete text; everything else (presence, record counts and sizes, times within the day, ties) is symbolic.
    int nrec = 0; int lastDay = 0, lastMs = 0; int nfiles = 0;
    for (int f = 0; f < NMENU + 1; ++f) {
        const bool active = f == NMENU;
#ifdef VF_NOACTIVE
        bool exists = active ? false : vf_nondet_bool();
#else
        bool exists = active ? true : vf_nondet_bool();    // a sink that ran before leaves an active file (possibly empty); VF_NOACTIVE jobs: none
#endif
#ifdef VF_NMENU
        if (!active && f >= VF_NMENU) exists = false;      // jobs that use only the first VF_NMENU menu files
#endif
        int cnt = vf_range(0, VF_PRE);                 // records in this file
        const int fday = active ? VF_ADAY : MENU[f < NMENU ? f : 0].day;
        int fms = vf_range(0, 2);                      // modification time within the day
        int sz0 = vf_range(1, VF_SMAX), sz1 = vf_range(1, VF_SMAX);
        if (!exists) cnt = 0;
#ifdef VF_ACTIVE_FIXED
        // jobs in which the day of the active file differs from the clock day when the sink initialises: the length of the active file
        // decides which of the two days becomes the current log date, so it is made a constant (1: exactly one one-character record,
        // 2: empty) -- otherwise the date string, the expressions built from it and their compilation become symbolic (no verdict)
        if (active) { cnt = VF_ACTIVE_FIXED == 1 ? 1 : 0; sz0 = 1; }
#endif
        QByteArray content; content = QByteArray("");
        if (exists) {
            vf_assume(active || cnt >= 1);               // only non-empty files are ever rotated
            if (P(6) && g_N == 1) vf_assume(active);     // C06 pre-state: with a file-count limit of 1 no rotated file exists
            vf_assume(cnt <= 2 && nrec + cnt <= VF_PRE);
            vf_assume(fday > lastDay || (fday == lastDay && fms >= lastMs));      // times follow rotation order, ties allowed
            for (int k = 0; k < 2; ++k) if (k < cnt) {
                int sz = k == 0 ? sz0 : sz1;
                RecInfo &ri = g_rec[nrec]; ri.size = sz; ri.mb = false; ri.day = fday; ri.written = true;
                content.append(rec_bytes(nrec, sz));
                ++nrec;
            }
            if (g_L > 0 && g_N != 1) vf_assume(content.size() <= g_L || cnt == 1);     // C07 pre-state
            lastDay = fday; lastMs = fms; ++nfiles;
        }
                if (!active && MENU_GZ(f)) content = ref_gzip(content);      // a compressed menu file holds a complete gzip stream of its records
        env_put_file_slot(active ? 0 : f + 1, exists, QString::fromLatin1(active ? BASE : MENU[f < NMENU ? f : 0].name), content, fday, fms);
    }
    if (g_N >= 2) vf_assume(nfiles <= g_N);                 // C06 pre-state: the retention bound holds before the write
    foreign[0] = false; foreign[1] = false;
#ifdef VF_FOREIGN
    for (int k = 0; k < VF_FOREIGN && k < 2; ++k) { foreign[k] = vf_nondet_bool(); env_put_file_slot(NMENU + 1 + k, foreign[k], QString::fromLatin1(FOREIGN[k]), QByteArray("x\n"), 0, 0); }
#endif
    vf_assume(lastDay <= VF_ADAY);
    *pLastMs = lastDay < VF_ADAY ? 0 : lastMs;
    return nrec;
}

extern "C" void h_fs_step()
{
    bool foreign[2]; int lastMs = 0;
    const int npre = fs_prestate(foreign, &lastMs);
    VF_CUT_AT(1);
    // ---- a new sink on that directory, VF_OPS writes
    int day = VF_ADAY, ms = lastMs;          // "now": not before the active file's (or any file's) last write
    env_clock(day, ms);
    make_sink();
    VF_CUT_AT(2);
    int nwritten = npre;
    for (int op = 0; op < VF_OPS; ++op) {
        int tick = vf_range(0, 2); const int dday = (VF_DDAY >> op) & 1;
        ms += tick; day += dday; if (dday) ms = 0;
        env_clock(day, ms);
        int size = vf_range(1, VF_SMAX); bool mb = vf_nondet_bool();       // mb: characters that take two bytes in UTF-8
        RecInfo &ri = g_rec[nwritten];
        ri.size = size; ri.mb = mb; ri.day = day; ri.written = true;
        QString text = QStringLiteral("");
        for (int i = 0; i < VF_SMAX; ++i) if (i < size) text.append(QChar(ushort(mb ? 0xe0 + nwritten : 'A' + nwritten)));
        LogMessage msg(QtInfoMsg, g_ctx, text);
#ifdef VF_PROBE
        // debugging aid: run one private piece of the sink on the symbolic pre-state instead of send() (cost localisation)
        {
            auto *d = g_sink->d.data();
            d->init();
            if (VF_PROBE == 2) { int i = d->findNextIndexForDate(d->m_currentLogDate); vf_assert(i >= 1, "probe"); }
            if (VF_PROBE == 3) { QString n = d->generateRotatedFileName(d->m_currentLogDate, vf_range(1, 11)); vf_assert(n.size() > 3, "probe"); }
            if (VF_PROBE == 4) { QStringList l = d->findRotatedFiles(); vf_assert(l.size() <= 3, "probe"); }
            if (VF_PROBE == 5) d->removeOldFiles();
            if (VF_PROBE == 6) d->rotate();
            if (VF_PROBE == 7) d->rotateIfNeeded(msg);
            if (VF_PROBE == 8) g_sink->FileSink::send(msg);
            if (VF_PROBE == 12) { vf_assert(d->m_currentLogDate.m_day == VF_ADAY, "dayconst"); auto fi = QFileInfo(g_sink->file()->fileName()); vf_assert(fi.exists(), "existsconst"); vf_assert(fi.lastModified().m_day == VF_ADAY, "lmconst"); vf_assert(qm_fs[0].mday == VF_ADAY, "slotconst"); vf_assert(QDate::currentDate().m_day == VF_ADAY, "clockconst"); }
            if (VF_PROBE == 9) { auto fi = QFileInfo(g_sink->file()->fileName()); QString e = QRegularExpression::escape(fi.completeBaseName()); vf_assert(e == QStringLiteral("a"), "probe"); }
            if (VF_PROBE == 10) { QString e = QRegularExpression::escape(d->m_currentLogDate.toString(QStringLiteral("yyyy-MM-dd"))); vf_assert(e.size() == 12, "probe"); }
            if (VF_PROBE == 11) { QString e = QRegularExpression::escape(QDate::currentDate().toString(QStringLiteral("yyyy-MM-dd"))); vf_assert(e.size() == 12, "probe"); }
            vf_witness(); return;
        }
#endif
        g_sink->send(msg);
        VF_CUT_AT(3);
        g_sink->flush();
        env_after_op();
        ++nwritten;
        check_directory(nwritten);
        VF_CUT_AT(4);
        for (int k = 0; k < 2; ++k) if (foreign[k] && P(6))
            vf_assert(env_read(QString::fromLatin1(FOREIGN[k])) == QByteArray("x\n"), "files that do not follow the rotated-name scheme are never touched");
    }
    vf_witness();
}

// ------------------------------------------------------------------------------------------------------------------
// h_fs_crash (C10): the pre-state of h_fs_step, a new sink, one write during which EITHER the process dies at a symbolic
// operation of the file-system model (everything from that operation on has no effect; what remains is the durable state)
// OR one rename / remove / open(WriteOnly) fails.  Afterwards every record that was in the directory before must still be
// recoverable from an intact file; then a sink is started again, writes another record, and the same must hold plus the
// new record.  Retention is switched off in these jobs (N <= 1), so no record may legitimately disappear.
#ifndef VF_FAULT
#define VF_FAULT 0          // 0: crash at operation k, 1: operation k fails
#endif
extern "C" void h_fs_crash()
{
    bool foreign[2]; int lastMs = 0;
    const int npre = fs_prestate(foreign, &lastMs);
    vf_assume(g_N <= 1);
    int day = VF_ADAY, ms = lastMs;
    env_clock(day, ms);
    make_sink();
    int nwritten = npre;
    // the write during which it happens
    {
        int tick = vf_range(0, 2); const int dday = VF_DDAY & 1;
        ms += tick; day += dday; if (dday) ms = 0;
        env_clock(day, ms);
        int size = vf_range(1, VF_SMAX);
        RecInfo &ri = g_rec[nwritten];
        ri.size = size; ri.mb = false; ri.day = day; ri.written = true;
        QString text = QStringLiteral("");
        for (int i = 0; i < VF_SMAX; ++i) if (i < size) text.append(QChar(ushort('A' + nwritten)));
        LogMessage msg(QtInfoMsg, g_ctx, text);
        int k = vf_range(0, 14);
        if (VF_FAULT) env_fail_at(env_ops() + k); else env_crash_at(env_ops() + k);
        g_sink->send(msg);
        g_sink->flush();
        env_after_op();
        ++nwritten;
        check_directory(nwritten);
        for (int r = 0; r < MAXREC; ++r) if (r < npre)
            vf_assert(g_present[r], "every record that had reached a file before the crash / failure is still recoverable from an intact file");
        // (whether the record written DURING a failure survives is not part of the statement: if re-opening the log file itself
        //  fails there is nowhere to write it; a first version of this oracle demanded it and was corrected)
    }
    // a sink started afterwards
    env_crash_at(1 << 30); env_fail_at(-1);
    if (VF_FAULT) delete g_sink;          // (after a crash the old process is gone: its destructor never runs)
    {
        int tick = vf_range(0, 2); const int dday = (VF_DDAY >> 1) & 1;
        ms += tick; day += dday; if (dday) ms = 0;
        env_clock(day, ms);
#ifdef VF_RESTART_L0
        g_L = 0;          // the sink started afterwards has no size limit in this job (it only appends; startup / daily rotation as configured)
#endif
        make_sink();
        int size = vf_range(1, VF_SMAX);
        RecInfo &ri = g_rec[nwritten];
        ri.size = size; ri.mb = false; ri.day = day; ri.written = true;
        QString text = QStringLiteral("");
        for (int i = 0; i < VF_SMAX; ++i) if (i < size) text.append(QChar(ushort('A' + nwritten)));
        LogMessage msg(QtInfoMsg, g_ctx, text);
        g_sink->send(msg);
        g_sink->flush();
        env_after_op();
        ++nwritten;
        check_directory(nwritten);
        for (int r = 0; r < MAXREC; ++r) if (r < npre)
            vf_assert(g_present[r], "a sink started after the crash / failure does not overwrite or delete earlier records");
        vf_assert(g_present[nwritten - 1], "a sink started after the crash / failure continues logging");
    }
    vf_witness();
}
