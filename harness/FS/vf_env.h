// vf_env.h -- the file-system / clock environment of the file-sink harnesses, with two implementations:
//   symbolic build : qtmodel/qm_fs.h (in-memory directory, virtual clock, crash / fault injection)
//   real build     : a scratch directory under $VF_WORKDIR, virtual clock through link-time wrapping of
//                    QDate::currentDate / QDateTime::currentDateTime, modification times set with utimensat
// The harness only uses this API and public Qt API, so a solver counterexample replays on the real library.
#pragma once
#include "vf.h"
#define ENV_DAY0_Y 2024
#define ENV_DAY0_M 5
#define ENV_DAY0_D 10
#ifdef VF_REAL
#include <sys/stat.h>
#include <fcntl.h>
#include <unistd.h>
#include <ctime>
static QString g_env_dir;
static int g_env_day = 0, g_env_ms = 0;
static QDateTime env_dt(int day, int ms) { return QDateTime(QDate(ENV_DAY0_Y, ENV_DAY0_M, ENV_DAY0_D).addDays(day), QTime(0, 0).addMSecs(ms)); }
extern "C" QDate __real__ZN5QDate11currentDateEv();
// link-time wrappers (-Wl,--wrap): the code under test reads the virtual clock
QDate vf_wrap_currentDate() { return env_dt(g_env_day, g_env_ms).date(); }
QDateTime vf_wrap_currentDateTime() { return env_dt(g_env_day, g_env_ms); }
struct EnvSnap { QString name; qint64 size; };
static QList<EnvSnap> g_env_snap;
static void env_set_mtime(const QString &name, int day, int ms)
{
    QDateTime t = env_dt(day, ms);
    struct timespec ts[2]; ts[0].tv_sec = ts[1].tv_sec = t.toSecsSinceEpoch(); ts[0].tv_nsec = ts[1].tv_nsec = (ms % 1000) * 1000000L;
    utimensat(AT_FDCWD, (g_env_dir + "/" + name).toLocal8Bit().constData(), ts, 0);
}
static void env_snapshot() { g_env_snap.clear(); for (const QString &n : QDir(g_env_dir).entryList(QDir::Files, QDir::Name)) g_env_snap.append(EnvSnap { n, QFileInfo(g_env_dir + "/" + n).size() }); }
static void env_init()
{
    g_env_dir = QString::fromLocal8Bit(qgetenv("VF_WORKDIR")) + "/fsdir";
    QDir(g_env_dir).removeRecursively(); QDir().mkpath(g_env_dir);
    env_snapshot();
}
static QString env_path(const QString &name) { return g_env_dir + "/" + name; }
static void env_clock(int day, int ms) { g_env_day = day; g_env_ms = ms; }
// after an operation of the code under test: files whose size changed (or that are new) were written "now" on the virtual clock
static void env_after_op()
{
    for (const QString &n : QDir(g_env_dir).entryList(QDir::Files, QDir::Name)) {
        qint64 sz = QFileInfo(g_env_dir + "/" + n).size(); bool same = false;
        for (const EnvSnap &s : g_env_snap) if (s.name == n && s.size == sz) same = true;
        if (!same) env_set_mtime(n, g_env_day, g_env_ms);
    }
    env_snapshot();
}
static void env_put_file(const QString &name, const QByteArray &bytes, int day, int ms)
{
    QFile f(env_path(name)); f.open(QIODevice::WriteOnly); f.write(bytes); f.close();
    env_set_mtime(name, day, ms); env_snapshot();
}
// a file of the pre-state that exists or not (symbolic build: it occupies a FIXED slot of the directory model either way, so
// that names and days per slot stay concrete for the solver)
static void env_put_file_slot(int, bool exists, const QString &name, const QByteArray &bytes, int day, int ms) { if (exists) env_put_file(name, bytes, day, ms); }
static QStringList env_list() { return QDir(g_env_dir).entryList(QDir::Files, QDir::Name); }
static QByteArray env_read(const QString &name) { QFile f(env_path(name)); if (!f.open(QIODevice::ReadOnly)) return QByteArray(); return f.readAll(); }
static void env_bufsize(int) { }
static void env_crash_at(int) { }
static void env_fail_at(int) { }
static int env_ops() { return 0; }
#else
static void env_init()
{
    for (int i = 0; i < QM_FS_SLOTS; ++i) qm_fs[i].exists = false;
    qm_fs_ops = 0; qm_fs_crash_at = 1 << 30; qm_fs_fail_at = -1; qm_fs_bufsize = 1 << 20; qm_fs_seq = 0; qm_fs_nrenames = 0; qm_fs_nremoves = 0;
    qm_clock_day = 0; qm_clock_ms = 0;
}
static QString env_path(const QString &name) { return QString::fromLatin1(QM_FS_DIR "/") + name; }
static void env_clock(int day, int ms) { qm_clock_day = day; qm_clock_ms = ms; }
static void env_after_op() { }
static void env_put_file(const QString &name, const QByteArray &bytes, int day, int ms)
{
    int s = qm_fs_create(name);
    for (int i = 0; i < QM_FS_SLOTS; ++i) if (i == s) {
        for (int k = 0; k < QM_FS_FCAP; ++k) if (k < bytes.size()) qm_fs[i].bytes[k] = (unsigned char)bytes.at(k);
        qm_fs[i].len = bytes.size(); qm_fs[i].durable = bytes.size(); qm_fs[i].mday = day; qm_fs[i].mms = ms;
    }
}
static void env_put_file_slot(int slot, bool exists, const QString &name, const QByteArray &bytes, int day, int ms)
{
    for (int i = 0; i < QM_FS_SLOTS; ++i) if (i == slot) {       // slot is a concrete number at every call site
        qm_fs[i].exists = exists; qm_fs[i].name = name;
        for (int k = 0; k < QM_FS_FCAP; ++k) if (k < bytes.size()) qm_fs[i].bytes[k] = (unsigned char)bytes.at(k);
        qm_fs[i].len = bytes.size(); qm_fs[i].durable = bytes.size(); qm_fs[i].mday = day; qm_fs[i].mms = ms; qm_fs[i].mseq = ++qm_fs_seq;
    }
}
static QStringList env_list() { return QDir(QString::fromLatin1(QM_FS_DIR)).entryList(QDir::Files, QDir::Name); }
// what a reader finds on disk: the DURABLE bytes
static QByteArray env_read(const QString &name)
{
    QByteArray r; r.m_null = false;
    int s = qm_fs_find(name);
    for (int i = 0; i < QM_FS_SLOTS; ++i) if (i == s) { QM_LIMIT(qm_fs[i].durable <= QM_STR_CAP); for (int k = 0; k < QM_FS_FCAP && k < QM_STR_CAP; ++k) if (k < qm_fs[i].durable) r.m_d[k] = char(qm_fs[i].bytes[k]); r.m_len = qm_fs[i].durable; }
    return r;
}
static void env_bufsize(int n) { qm_fs_bufsize = n; }
static void env_crash_at(int k) { qm_fs_crash_at = k; }
static void env_fail_at(int k) { qm_fs_fail_at = k; }
static int env_ops() { return qm_fs_ops; }
#endif
