# Jobs of the file-sink family (C05, C06, C07, C09, C10) over harness/FS/fs.cpp.
#   h_fs_step : inductive form -- arbitrary directory within a menu, a new sink, VF_OPS writes (claimed checks)
#   h_fs_hist : histories from the empty directory (experimental tier: no verdict within the budget, see DESIGN.md)
D = {'QM_STR_CAP': 48, 'QM_LIST_CAP': 5, 'QM_HASH_CAP': 2, 'QM_FS_SLOTS': 5, 'QM_FS_FCAP': 12, 'QM_RX_MAXSEG': 16, 'VF_LMAX': 8, 'VF_SMAX': 2, 'VF_PRE': 3}
UP = {'h_fs_hist': 8, 'h_fs_step': 8, 'check_directory': 8, 'decode': 10, 'findNextIndexForDate': 6, 'findRotatedFilesEv\\.[0-9]+$': 7, 'removeOldFiles': 5, 'calculateCRC32': 300, 'ref_crc32': 40,
      '__insertion_sort': 4, '__unguarded': 4, 'env_gunzip': 40, 'ref_gzip': 12, 'parse_rotated_name': 50, 'rx_compile': 2600, 'entryList': 90, 'rx_exec_det': 60, 'rx_prog_is_det': 30}

def step(prop, name, menu, aday, dday, startup, daily, compress, ops=1, tiers=('quick', 'thorough'), extra=None, timeout=1800, mem=24, replay=None):
    d = dict(D, VF_PROP=prop, VF_OPS=ops, VF_MENU=menu, VF_ADAY=aday, VF_DDAY=dday, VF_STARTUP=startup, VF_DAILY=daily, VF_COMPRESS=compress)
    if compress or menu >= 3:
        d.update(QM_FS_FCAP=32, QM_FS_SLOTS=6, QM_LIST_CAP=6)
    if extra:
        d.update(extra)
    up = dict(UP)
    if compress:
        up.update({'calculateCRC32ER5QFile\\.[01]$': 2100, 'calculateCRC32ER5QFile\\.[2-9]$': 14})
    j = dict(name=name, src='../FS/fs.cpp', fn='h_fs_step', defines=d, unwind=50, unwind_patterns=up, timeout=timeout, mem=mem, real_wrap_clock=True, tiers=list(tiers), cbmc_extra=['--slice-formula'])
    j['mem_est'] = 26 if (compress or menu >= 3) else (22 if ops > 1 else 15)
    if compress or menu >= 3:
        j['cbmc_extra'] = ['--slice-formula', '--max-field-sensitivity-array-size', '256']
    if replay:
        j['replay'] = replay
    return j

def bounds(desc):
    return ('inductive step: the directory found by a newly started sink is arbitrary within a menu -- active file a.l (0..2 whole records) and up to two rotated files with concrete names '
            '(each present or not, 1..2 records each, at most 3 records in all, records of 1..2 characters), modification times symbolic and non-decreasing in rotation order with ties allowed; '
            'size limit 0..8, file-count limit -1..4 symbolic; clock ticks 0..2 symbolic; days concrete per job; jobs: ' + desc)

OUTSIDE = ('directories outside the menus (more than two rotated files, other names), longer write sequences per sink instance than stated, file names other than a.l, real kernel/file-system '
           'semantics (POSIX rename atomicity assumed), the deflate payload itself (zlib is a contract stub: RFC 1950 framing around the raw bytes); the pre-state is ASSUMED to satisfy what the '
           'property asserts about the post-state (inductive hypothesis) plus: rotated files are non-empty, times follow rotation order')
ASSUMPTIONS = ['file-system model qtmodel/qm_fs.h (rename refuses existing targets, open(Append) creates, size() flushes, mtime = time of last durable write, kept by rename)',
               'qCompress = 4-byte length + zlib header + deflate data + Adler-32 (RFC 1950 framing); deflate data is a contract stub',
               'QString::toLocal8Bit == toUtf8 (UTF-8 locale)', 'regex model (deterministic-scan fragment, cross-checked against the generic engine and real Qt by vf conform)',
               'std::sort on a list of at most 16 elements is libstdc++ __insertion_sort (what std::sort executes below its threshold)']
