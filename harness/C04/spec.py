# shared concurrency harness: harness/CONC/conc.cpp (VF_PROP selects the property)
D = {'QM_STR_CAP': 10, 'QM_LIST_CAP': 4, 'QM_HASH_CAP': 2, 'QM_EVQ_CAP': 4, 'VF_PROP': 4, 'VF_NOSEQ': 1, 'VF_SCHED_K': 1}
REC = {'_ZL9scheduleri': 6, '_ZL13producer_stepi': 6}
UP = {'resetOwnThread': 4, 'h_conc': 8, 'check_deliveries': 8, 'scheduler': 4}
JOBS = []
for nm, path in (('reset', 0), ('quit', 1), ('dtor', 2)):
    JOBS.append(dict(name='stop_' + nm, src='../CONC/conc.cpp', fn='h_conc', defines=dict(D, VF_PROD=1, VF_MSGS=1, VF_ROUNDS=1, VF_DEPTH=1, VF_STOP_PATHS=3, VF_ONLY_PATH=path), unwind=14, unwindset=REC, unwind_patterns=UP, timeout=2400, mem=28, replay='model', cbmc_extra=['--slice-formula']))
JOBS.append(dict(name='stop_no_app', src='../CONC/conc.cpp', fn='h_conc', defines=dict(D, VF_PROD=1, VF_MSGS=1, VF_ROUNDS=1, VF_DEPTH=1, VF_STOP_PATHS=4, VF_ONLY_PATH=3), unwind=14, unwindset=REC, unwind_patterns=UP, timeout=2400, mem=28, replay='model', cbmc_extra=['--slice-formula']))
JOBS.append(dict(name='stop_2x1', src='../CONC/conc.cpp', fn='h_conc', tiers=['thorough'], defines=dict(D, VF_PROD=2, VF_MSGS=1, VF_ROUNDS=2, VF_DEPTH=2, VF_STOP_PATHS=3), unwind=14, unwindset=REC, unwind_patterns=UP, timeout=7200, mem=40, replay='model'))
BOUNDS = {'quick': 'backlog of 0..1 posted messages (1 producer x 1 message, possibly still logging during the stop; thorough: 2 producers), stop by resetOwnThread / aboutToQuit / destructor with a live QCoreApplication; and destructor after the QCoreApplication is gone', 'thorough': 'same'}
OUTSIDE = 'schedules that are not well nested (two threads suspended inside each other alternately), more threads / messages / rounds, weak memory (sequential consistency assumed), wall-clock bounds (termination = no reachable state in which the stopper spins with no progress possible under fair sleeping)'
ASSUMPTIONS = ['nested-preemption sequentialisation (qtmodel/qm_thread_full.h): a step that would block on a mutex is pruned; equivalent later start is explored instead', 'posted events are FIFO; a finished event loop and a missing QCoreApplication discard queued events (Qt behaviour)', 'counterexamples are replayed natively on the real code over the Qt model, not on OS threads']

for _j in JOBS:
    _j.setdefault('mem_est', 28)
