import sys, os; sys.path.insert(0, os.path.join(os.path.dirname(os.path.abspath(__file__)), '..', 'FS'))
import importlib, fs_jobs; importlib.reload(fs_jobs)
from fs_jobs import step, bounds, OUTSIDE, ASSUMPTIONS
P = 6
JOBS = [
    step(P, 'retain_m0',      0, 0, 0, 0, 0, 0),
    step(P, 'retain_9_10',    1, 0, 0, 0, 0, 0),
    step(P, 'retain_foreign', 0, 0, 0, 1, 0, 0, extra={'VF_FOREIGN': 1, 'QM_FS_SLOTS': 6, 'QM_LIST_CAP': 6}, timeout=3000, mem=28, tiers=('thorough',)),
    step(P, 'retain_foreign2', 0, 0, 0, 1, 0, 0, extra={'VF_FOREIGN': 2, 'QM_FS_SLOTS': 7, 'QM_LIST_CAP': 7}, timeout=3600, mem=32, tiers=('thorough',)),
    step(P, 'retain_days',    2, 1, 1, 0, 1, 0, tiers=('thorough',)),
    step(P, 'retain_gz',      0, 0, 0, 1, 0, 1, tiers=('thorough',), timeout=3000, mem=28),
    step(P, 'retain_2writes', 1, 0, 0, 0, 0, 0, ops=2, tiers=('thorough',), timeout=5400, mem=40),
]
BOUNDS = {'quick': bounds('size rotation on the menus {.1,.2} and {.9,.10} (name order differs from rotation order); (thorough: startup rotation next to the foreign files a.2024-05-10.1.l.bak, b.2024-05-10.1.l)'),
          'thorough': bounds('plus daily rotation across days, compression, two writes')}
