import sys, os; sys.path.insert(0, os.path.join(os.path.dirname(os.path.abspath(__file__)), '..', 'FS'))
import importlib, fs_jobs; importlib.reload(fs_jobs)
from fs_jobs import step, bounds, OUTSIDE, ASSUMPTIONS
P = 7
JOBS = [
    step(P, 'size_m0', 0, 0, 0, 0, 0, 0),
    step(P, 'size_m1', 1, 0, 0, 0, 0, 0),
    step(P, 'size_daily_startup', 2, 1, 1, 1, 1, 0, tiers=('thorough',)),
    step(P, 'size_2writes', 0, 0, 0, 0, 0, 0, ops=2, tiers=('thorough',), timeout=5400, mem=40),
]
BOUNDS = {'quick': bounds('size rotation alone on menus {.1,.2} and {.9,.10} (one write)'), 'thorough': bounds('plus daily+startup rotation with a day change, and two writes')}
