# shared file-sink harness: see harness/FS/fs.cpp (VF_PROP selects the property whose assertions are active).
# One job per combination of the option bits (RotationOnStartup, RotationDaily, Compression): together they cover all.
D = {'QM_STR_CAP': 48, 'QM_LIST_CAP': 7, 'QM_HASH_CAP': 2, 'QM_FS_SLOTS': 6, 'QM_FS_FCAP': 32, 'QM_RX_MAXSEG': 16, 'VF_PROP': 7, 'VF_LMAX': 8, 'VF_SMAX': 3}
UP = {'h_fs_hist': 8, 'check_directory': 10, 'decode': 10, 'findNextIndexForDate': 8, 'findRotatedFiles': 8, 'removeOldFiles': 8, 'calculateCRC32': 300, 'ref_crc32': 40, '__insertion_sort': 8, '__unguarded': 8, '__introsort': 8, '__final_insertion': 8, 'sort': 8, 'env_gunzip': 40, 'parse_rotated_name': 50}
JOBS = []
for s_, d_, c_ in [(0, 0, 0), (0, 1, 0), (1, 0, 0), (1, 1, 0)]:
    quick = (s_, d_, c_) in [(0, 0, 0), (1, 1, 0)]
    JOBS.append(dict(name='hist2_s%dd%dc%d' % (s_, d_, c_), src='../FS/fs.cpp', fn='h_fs_hist', defines=dict(D, VF_OPS=2, VF_STARTUP=s_, VF_DAILY=d_, VF_COMPRESS=c_), unwind=50, unwind_patterns=UP,
                     timeout=2400, mem=14, real_wrap_clock=True, tiers=['quick', 'thorough'] if quick else ['thorough']))
JOBS.append(dict(name='hist3', src='../FS/fs.cpp', fn='h_fs_hist', defines=dict(D, VF_OPS=3, VF_STARTUP=0, VF_DAILY=1, VF_COMPRESS=0), unwind=50, unwind_patterns=UP, timeout=7200, mem=40, tiers=['thorough'], real_wrap_clock=True))
BOUNDS = {'quick': 'every history of 2 writes (record 1..3 characters, ASCII or 2-byte UTF-8) with clock ticks 0..2 (ties included), day changes 0..2, optional sink restart before each write; size limit 0..8, file-count limit -1..3; option combinations [(0, 0, 0), (1, 1, 0)] (startup, daily, compression); directory decoded after every write', 'thorough': 'all option combinations [(0, 0, 0), (0, 1, 0), (1, 0, 0), (1, 1, 0)], and histories of 3 writes with daily rotation'}
OUTSIDE = 'longer histories; directories with pre-existing or foreign files; file names other than a.l; real kernel/file-system semantics (POSIX rename atomicity assumed); the deflate payload itself (zlib, contract stub)'
ASSUMPTIONS = ['file-system model qtmodel/qm_fs.h (rename refuses existing targets, open(Append) creates, size() flushes, mtime = time of last durable write)', 'qCompress = 4-byte length + zlib header + deflate data + Adler-32 (RFC 1950 framing); deflate data is a contract stub', 'QString::toLocal8Bit == toUtf8 (UTF-8 locale)', 'regex model validated by vf conform']
