// C12: pattern formatting follows the documented mini-language; values are verbatim.
// Unit: the real formatters/patternformatter.cpp (whole TU: parseFormatSpec, applyPadding, all tokens, parsePattern, format).
#include "vf_prelude.h"
#include "vf_util.h"
#include "formatters/patternformatter.cpp"
using namespace QtLogger;

#ifndef VF_VLEN
#define VF_VLEN 4      // max value length (UTF-16 units)
#endif
#ifndef VF_SPECLEN
#define VF_SPECLEN 4
#endif

static const QMessageLogContext g_ctx("f.cpp", 1, "fn", "cat");

// ---------------------------------------------------------------- (a) parseFormatSpec vs the documented grammar
//   spec := [fill] align width ['!']  |  width '!'        align in {<,>,^}, width = 1..3 ASCII digits, value > 0
struct RefSpec { bool valid; unsigned short fill; int align; int width; int mode; };   // align 0 none 1 left 2 right 3 center; mode 0 none 1 truncate(+pad) 2 truncate-only
static bool is_align(unsigned short c) { return c == '<' || c == '>' || c == '^'; }
static int align_of(unsigned short c) { return c == '<' ? 1 : c == '>' ? 2 : 3; }
static bool is_digit(unsigned short c) { return c >= '0' && c <= '9'; }

// returns 1 = in the documented grammar (out filled), 0 = certainly not a spec under any reading, 2 = grey zone (sign/space in width etc.)
static int ref_parse_spec(const unsigned short *s, int n, RefSpec &out)
{
    out.valid = false; out.fill = ' '; out.align = 0; out.width = 0; out.mode = 0;
    if (n == 0) return 0;
    bool bang = s[n - 1] == '!';
    int m = bang ? n - 1 : n;
    if (m == 0) return 0;
    int pos = 0; bool hasFill = false;
    if (m >= 2 && is_align(s[1])) { out.fill = s[0]; out.align = align_of(s[1]); hasFill = true; pos = 2; }
    else if (is_align(s[0])) { out.align = align_of(s[0]); pos = 1; }
    else if (!bang) return 0;                   // no alignment and no '!': not a spec
    if (pos >= m) return 0;                       // width missing
    int w = 0; bool digits = true;
    for (int i = pos; i < m; ++i) { if (!is_digit(s[i])) digits = false; else w = w * 10 + (s[i] - '0'); }
    if (!digits) {
        // a width containing anything but digits: only whitespace / sign are tolerated by lenient integer parsers -> grey
        for (int i = pos; i < m; ++i) if (!is_digit(s[i]) && s[i] != ' ' && s[i] != '+' && s[i] != '-' && !(s[i] >= 9 && s[i] <= 13) && s[i] < 0x80) return 0;
        return 2;
    }
    if (w <= 0) return 0;
    out.valid = true; out.width = w;
    out.mode = bang ? (hasFill ? 1 : 2) : 0;
    return 1;
}

extern "C" void h_parse_spec()
{
    unsigned short buf[VF_SPECLEN];
    int n = vf_range(0, VF_SPECLEN);
    QString spec = QStringLiteral("");
    for (int i = 0; i < VF_SPECLEN; ++i) { buf[i] = vf_nondet_u16(); if (i < n) { vf_assume(buf[i] != 0); spec.append(QChar(buf[i])); } }
    RefSpec ref;
    int cls = ref_parse_spec(buf, n, ref);
    auto got = FormattedToken::parseFormatSpec(spec);
    if (cls == 1) {
        vf_assert(got.has_value(), "documented format spec is accepted");
        if (got.has_value()) {
            vf_assert(got->width == ref.width, "format spec: width");
            vf_assert(got->fill.unicode() == ref.fill, "format spec: fill character (default space)");
            vf_assert((int)got->align == ref.align, "format spec: alignment");
            vf_assert((int)got->truncateMode == (ref.mode == 1 ? 1 : ref.mode == 2 ? 2 : 0), "format spec: truncation mode (! with fill = truncate+pad, ! without fill = truncate only)");
        }
    } else if (cls == 0) {
        vf_assert(!got.has_value(), "text that is not a format spec is rejected (stays part of the placeholder)");
    }
    vf_witness();
}

// ---------------------------------------------------------------- (b) applyPadding vs the documented rules
static QString ref_pad(const QString &v, unsigned short fill, int align, int width, int mode)
{
    // mode 2: truncate only (keep last N for '>', else first N); no padding
    // mode 1: truncate then pad;  mode 0: pad only
    QString val = v;
    if (width <= 0) return v;
    if (mode == 2) {
        if (v.size() <= width) return v;
        return align == 2 ? v.mid(v.size() - width) : v.mid(0, width);
    }
    if (align == 0) return v;
    if (mode == 1 && val.size() > width) val = align == 2 ? val.mid(val.size() - width) : val.mid(0, width);
    if (val.size() >= width) return val;
    int pad = width - val.size();
    int left = align == 1 ? 0 : align == 2 ? pad : pad / 2;
    QString r = QStringLiteral("");
    for (int i = 0; i < left; ++i) r.append(QChar(fill));
    r.append(val);
    for (int i = 0; i < pad - left; ++i) r.append(QChar(fill));
    return r;
}

extern "C" void h_padding()
{
    QString v = vf_string(VF_VLEN, false, 0x0001, 0xffff);
    FormattedToken::FormatSpec spec;
    unsigned short fill = vf_nondet_u16();
    int align = vf_range(0, 3), width = vf_range(0, VF_VLEN + 3), mode = vf_range(0, 2);
    spec.fill = QChar(fill); spec.align = (FormattedToken::Alignment)align; spec.width = width; spec.truncateMode = (FormattedToken::TruncateMode)mode;
    // only combinations parseFormatSpec can produce: truncate+pad needs an alignment; truncate-only may have none
    vf_assume(!(mode == 1 && align == 0));
    vf_assume(!(mode == 0 && align == 0 && width > 0));
    MessageToken t;
    t.setFormatSpec(spec);
    QString got = t.applyPadding(v);
    QString want = ref_pad(v, fill, align, width, mode);
    vf_assert(got == want, "padding/truncation output equals the documented rule for every value");
    vf_witness();
}

// ---------------------------------------------------------------- (c,d) parsePattern + format vs a reference formatter
// The reference is written from docs/api/formatters.md and works on UTF-16 code units.  Values are inserted verbatim;
// removals requested by optional attributes apply to literal pattern text only.
#ifndef VF_SKEL
#define VF_SKEL 0
#endif
struct Vals {
    QString message; QString category; int type; int line;
    bool hasU, hasV, hasN; QString u, v; int n;
};
static QString ref_type_name(int t) { switch (t) { case QtDebugMsg: return QStringLiteral("debug"); case QtInfoMsg: return QStringLiteral("info"); case QtWarningMsg: return QStringLiteral("warning"); case QtCriticalMsg: return QStringLiteral("critical"); default: return QStringLiteral("fatal"); } }
static int ref_type_of(const QString &s) { if (s == QStringLiteral("debug")) return QtDebugMsg; if (s == QStringLiteral("info")) return QtInfoMsg; if (s == QStringLiteral("warning")) return QtWarningMsg; if (s == QStringLiteral("critical")) return QtCriticalMsg; if (s == QStringLiteral("fatal")) return QtFatalMsg; return -1; }
static int ref_int(const QString &s) { int v = 0; for (int i = 0; i < s.size(); ++i) v = v * 10 + (s.at(i).unicode() - '0'); return v; }

static QString ref_format(const QString &pat, const Vals &vals)
{
    QString out = QStringLiteral("");
    int pendingRemove = 0;      // chars still to drop from the literal text that immediately follows an absent optional attribute
    int litRun = 0;             // length of the literal text emitted since the last non-literal token (what ?N may remove)
    bool cond = false; int condType = 0;
    int pos = 0; const int L = pat.size();
    while (pos < L) {
        unsigned short c = pat.at(pos).unicode();
        bool isLit = true; unsigned short litc = c; int adv = 1;
        if (c == '%' && pos + 1 < L && pat.at(pos + 1).unicode() == '%') { adv = 2; }
        else if (c == '%' && pos + 1 < L && pat.at(pos + 1).unicode() == '{') {
            int close = -1;
            for (int i = pos + 2; i < L; ++i) if (pat.at(i).unicode() == '}') { close = i; break; }
            if (close >= 0) {
                isLit = false;
                QString ph = pat.mid(pos + 2, close - pos - 2);
                pos = close + 1;
                // optional trailing format spec
                RefSpec spec; bool hasSpec = false;
                int colon = -1; for (int i = 0; i < ph.size(); ++i) if (ph.at(i).unicode() == ':') colon = i;
                if (colon >= 0 && colon < ph.size() - 1) {
                    unsigned short sb[8]; int sn = ph.size() - colon - 1;
                    if (sn <= 8) { for (int i = 0; i < sn; ++i) sb[i] = ph.at(colon + 1 + i).unicode(); if (ref_parse_spec(sb, sn, spec) == 1) { hasSpec = true; ph = ph.mid(0, colon); } }
                }
                if (ph.startsWith(QStringLiteral("if-"))) { cond = true; condType = ref_type_of(ph.mid(3)); continue; }
                if (ph == QStringLiteral("endif")) { cond = false; continue; }
                if (cond && condType != vals.type) continue;
                QString value; bool produced = true;
                if (ph == QStringLiteral("message")) value = vals.message;
                else if (ph == QStringLiteral("category")) value = vals.category;
                else if (ph == QStringLiteral("type")) value = ref_type_name(vals.type);
                else if (ph == QStringLiteral("line")) value = QString::number(vals.line);
                else if (ph == QStringLiteral("file")) value = QStringLiteral("d/f.c");
                else if (ph == QStringLiteral("shortfile")) value = QStringLiteral("f.c");
                else {
                    int q = ph.indexOf(QChar('?'));
                    QString name = q >= 0 ? ph.mid(0, q) : ph;
                    bool has = false; QString av;
                    if (name == QStringLiteral("u")) { has = vals.hasU; av = vals.u; }
                    else if (name == QStringLiteral("v")) { has = vals.hasV; av = vals.v; }
                    else if (name == QStringLiteral("n")) { has = vals.hasN; av = QString::number(vals.n); }
                    if (has) value = av;
                    else if (q < 0) value = QStringLiteral("%{") + name + QStringLiteral("}");   // required attribute missing: shown as written
                    else {
                        produced = false;
                        QString suffix = ph.mid(q + 1);
                        int comma = suffix.indexOf(QChar(','));
                        int nb = comma < 0 ? ref_int(suffix) : ref_int(suffix.mid(0, comma));
                        int na = comma < 0 ? 0 : ref_int(suffix.mid(comma + 1));
                        if (nb > 0 && nb <= litRun) { out.chop(nb); litRun -= nb; }
                        pendingRemove = na;
                        continue;      // the literal run is not interrupted by an absent attribute
                    }
                }
                if (produced) {
                    QString piece = hasSpec ? ref_pad(value, spec.fill, spec.align, spec.width, spec.mode) : value;
                    out.append(piece);
                    // removals act on the output stream: a token that contributes no characters does not separate an
                    // absent optional attribute from the literal text around it
                    if (!piece.isEmpty()) { litRun = 0; pendingRemove = 0; }
                }
                continue;
            }
        }
        // literal character (a conditional section applies to literal text as well)
        pos += adv;
        if (cond && condType != vals.type) continue;
        if (pendingRemove > 0) { --pendingRemove; continue; }
        out.append(QChar(litc)); ++litRun;
    }
    return out;
}

static const char *const g_skel[] = {
    "[%{message}] end",
    "#%{n?1} %{message}",
    "[%{u?1,1}] %{message}",
    "%{type:*<6}|%{message:>3!}",
    "%{if-warning}W:%{endif}%{message}%%",
    "%{category}:%{line} %{message:^5}",
    "a%{u?,2}bc%{v?1}d%%",
    "100%% %{message} %",
    "%{message} %{open",
    "%{if-info}<%{u?1,1}>x%{endif}%{message}",
    "%{file}|%{shortfile}|%{x}",
    "[%{u?1,2}]%{message:_^4!}.",
    "%{message:5!}%{v?,1}%{u}z",
};

extern "C" void h_format()
{
    Vals vals;
    // values: arbitrary UTF-16 units (surrogates, '%', '{', '}' included); U+200B is handled by h_format_zwsp
    vals.message = vf_string(VF_VLEN, false, 0x0001, 0xffff);
    vals.category = vf_string(2, false, 0x21, 0x7e);
    vals.type = vf_range(0, 4); vals.line = vf_range(0, 999);
    vals.hasU = vf_nondet_bool(); vals.hasV = vf_nondet_bool(); vals.hasN = vf_nondet_bool();
    vals.u = vf_string(2, false, 0x0001, 0xffff); vals.v = vf_string(1, false, 0x0001, 0xffff); vals.n = vf_range(0, 99);
#ifdef VF_ZWSP
    bool z = false;
    for (int i = 0; i < vals.message.size(); ++i) if (vals.message.at(i).unicode() == 0x200B) z = true;
    for (int i = 0; i < vals.u.size(); ++i) if (vals.u.at(i).unicode() == 0x200B) z = true;
    for (int i = 0; i < vals.v.size(); ++i) if (vals.v.at(i).unicode() == 0x200B) z = true;
    vf_assume(z);
#else
    for (int i = 0; i < vals.message.size(); ++i) vf_assume(vals.message.at(i).unicode() != 0x200B);
    for (int i = 0; i < vals.u.size(); ++i) vf_assume(vals.u.at(i).unicode() != 0x200B);
    for (int i = 0; i < vals.v.size(); ++i) vf_assume(vals.v.at(i).unicode() != 0x200B);
#endif
    QByteArray cat = vals.category.toLatin1();
    QMessageLogContext ctx("d/f.c", vals.line, "fn", cat.constData());
    LogMessage msg((QtMsgType)vals.type, ctx, vals.message);
    if (vals.hasU) msg.setAttribute(QStringLiteral("u"), vals.u);
    if (vals.hasV) msg.setAttribute(QStringLiteral("v"), vals.v);
    if (vals.hasN) msg.setAttribute(QStringLiteral("n"), vals.n);
    QString pat = QString::fromLatin1(g_skel[VF_SKEL]);
    PatternFormatter f(pat);
    QString got = f.format(msg);
    QString want = ref_format(pat, vals);
#ifdef VF_ZWSP
    vf_assert(got == want, "KF:C12-zwsp-in-value output equals the reference when a value contains U+200B");
#else
    vf_assert(got == want, "pattern output equals the documented rules (values verbatim, literal text unchanged)");
#endif
    vf_witness();
}
