D = {'QM_STR_CAP': 40, 'QM_LIST_CAP': 12, 'QM_HASH_CAP': 6}
JOBS = [
    dict(name='parse_spec', src='c12.cpp', fn='h_parse_spec', defines={'QM_STR_CAP': 8, 'VF_SPECLEN': 4}, defines_thorough={'VF_SPECLEN': 5}, unwind=10, timeout=900),
    dict(name='padding', src='c12.cpp', fn='h_padding', defines={'QM_STR_CAP': 10, 'VF_VLEN': 4}, defines_thorough={'QM_STR_CAP': 12, 'VF_VLEN': 6}, unwind=12, timeout=900),
]
for k in range(13):
    JOBS.append(dict(name='format_%d' % k, src='c12.cpp', fn='h_format', defines=dict(D, VF_SKEL=k, VF_VLEN=3), defines_thorough=dict(VF_VLEN=4), unwind=42, timeout=900))
for k in (0, 2):
    JOBS.append(dict(name='zwsp_%d' % k, src='c12.cpp', fn='h_format', defines=dict(D, VF_SKEL=k, VF_VLEN=3, VF_ZWSP=1), unwind=42, timeout=900))
BOUNDS = {'quick': 'parseFormatSpec: every spec string of <=4 arbitrary UTF-16 units; applyPadding: every value of <=4 arbitrary units x every fill/align/mode x width<=7; parsePattern+format: 13 concrete pattern skeletons (all documented token kinds except time/thread ids, conditionals, optional attributes ?N / ?N,M / ?,M, %% escape, lone %, unterminated %{, missing required attribute, padded and truncated tokens) x every message of <=3 arbitrary UTF-16 units (except U+200B), attribute presence and values, category, type, line',
          'thorough': 'spec <=5 units, values <=6 (padding) / <=4 (format)'}
OUTSIDE = 'pattern texts other than the 13 skeletons (pattern structure is concrete; values are symbolic); time/threadid/qthreadptr placeholders (Qt text, opaque in the model); %{func} cleaning (unspecified, see C14); nested conditionals, unknown if-names, removal counts exceeding the adjacent literal text (unspecified by the docs)'
ASSUMPTIONS = ['QString/QChar model (validated by vf conform)', 'reference formatter written from docs/api/formatters.md']
