// C08 (kernel job): the real calculateCRC32 + RotatingFileSinkPrivate::compressFile on a file of arbitrary bytes.
// The compressed file must gunzip (independent decoder: zlib in the real build, framing contract + bitwise CRC-32 in the
// model) to exactly the original bytes, and the original may disappear only once the compressed file is complete
// (checked for every crash point inside compressFile).
#include "vf_prelude.h"
#include "vf_util.h"
#define main fs_unused_main
#include "../FS/fs.cpp"
#undef main
#ifndef VF_NB
#define VF_NB 4
#endif
extern "C" void h_gzip()
{
    env_init(); env_clock(0, 0);
    RotatingFileSink sink(env_path(QStringLiteral("a.l")), 0, 0, RotatingFileSink::Compression);
    int n = vf_range(0, VF_NB);
    QByteArray orig(""); 
    for (int i = 0; i < VF_NB; ++i) { unsigned char b = vf_nondet_u8(); if (i < n) orig.append(char(b)); }
    env_put_file(QStringLiteral("r"), orig, 0, 0);
#ifdef VF_NOCRASH
    int k = 1000;
#else
    int k = vf_range(0, 12);
#endif
    env_crash_at(env_ops() + k);            // the process may die at any operation of compressFile (k beyond the last = no crash)
    int ops0 = env_ops();
    sink.d->compressFile(env_path(QStringLiteral("r")));
    bool crashed = env_ops() - ops0 > k;
    QStringList names = env_list();
    bool hasOrig = names.contains(QStringLiteral("r")), hasGz = names.contains(QStringLiteral("r.gz"));
    bool gzOk = false; QByteArray back;
    if (hasGz) back = env_gunzip(env_read(QStringLiteral("r.gz")), &gzOk);
    bool gzComplete = hasGz && gzOk && back == orig;
    bool origIntact = hasOrig && env_read(QStringLiteral("r")) == orig;
    vf_assert(origIntact || gzComplete, "at every instant either the original or a complete compressed copy exists");
    if (!crashed) {
        vf_assert(gzComplete, "the compressed file is a valid gzip stream of exactly the original bytes (CRC-32 and length match)");
        vf_assert(!hasOrig, "the uncompressed file is removed once the compressed one is complete");
    }
    vf_witness();
}
