import sys, os; sys.path.insert(0, os.path.join(os.path.dirname(os.path.abspath(__file__)), '..', 'FS'))
import importlib, fs_jobs; importlib.reload(fs_jobs)
from fs_jobs import step, bounds, OUTSIDE, ASSUMPTIONS
P = 10
def crash(name, fault, menu, aday, dday, startup, daily, compress, **kw):
    j = step(P, name, menu, aday, dday, startup, daily, compress, replay='model', **kw)
    j['fn'] = 'h_fs_crash'; j['defines'].update(VF_FAULT=fault, VF_OPS=2, VF_NMENU=1, VF_PRE=2, VF_SMAX=1, VF_LMAX=5)
    j['timeout'] = max(j['timeout'], 2400)
    j['unwind_patterns'] = dict(j['unwind_patterns'], h_fs_crash=8)
    return j
JOBS = [
    crash('crash_size', 0, 0, 0, 0, 0, 0, 0, extra={'VF_RESTART_L0': 1}),
    crash('fault_size', 1, 0, 0, 0, 0, 0, 0, extra={'VF_RESTART_L0': 1}),
    crash('crash_size_full', 0, 0, 0, 0, 0, 0, 0, tiers=('thorough',), timeout=5400, mem=32),
    crash('fault_size_full', 1, 0, 0, 0, 0, 0, 0, tiers=('thorough',), timeout=5400, mem=32),
    crash('crash_gz', 0, 0, 0, 0, 1, 0, 1, timeout=3000, mem=28, tiers=('thorough',)),
    crash('fault_gz', 1, 0, 0, 0, 1, 0, 1, timeout=3000, mem=28, tiers=('thorough',)),
    crash('crash_daily', 0, 2, 1, 1, 0, 1, 0, tiers=('thorough',)),
    crash('fault_daily', 1, 2, 1, 1, 0, 1, 0, tiers=('thorough',)),
]
BOUNDS = {'quick': bounds('(C10 jobs: only the first rotated file of the menu, at most 2 earlier records of 1 character, size limit 0..5) the process dies at a symbolic operation 0..14 of the file-system model during one rotating write (size rotation; startup rotation with compression), or that operation (rename / remove / open for writing) fails; then a new sink (quick: without a size limit, so it appends; thorough: with the same limit) writes one more record; file-count limit <= 1 (no retention)'),
          'thorough': bounds('plus failures during compression and crash / failure during daily rotation')}
OUTSIDE = OUTSIDE + '; torn writes (a write becomes durable whole or not at all), failing write()/flush() calls (the property lists rename, creating the compressed file and delete), retention limits >= 2 in these jobs; counterexamples replay natively on the real code over the file-system model (crash points cannot be injected into the real kernel here)'
ASSUMPTIONS = ASSUMPTIONS + ['crash model: from the crash operation on no file-system operation has any effect; readers see the durable bytes']
