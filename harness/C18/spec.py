D = {'QM_STR_CAP': 14, 'QM_LIST_CAP': 4, 'QM_HASH_CAP': 4, 'QM_JSON_CAP': 13, 'QM_JSON_POOL': 1}
JOBS = [
    dict(name='sentry_small', src='c18.cpp', fn='h_sentry', defines=dict(D, VF_MLEN=1, VF_NATTR=1), unwind=20, timeout=1200, mem=16),
    dict(name='sentry', src='c18.cpp', fn='h_sentry', defines=dict(D, VF_MLEN=3), unwind=20, timeout=2400, mem=28, tiers=['thorough']),
    dict(name='sentry_ids', src='c18.cpp', fn='h_sentry_ids', defines=dict(D), unwind=20, timeout=600),
    dict(name='sentry_cut100', src='c18.cpp', fn='h_sentry', defines=dict(D, QM_STR_CAP=104, VF_LONG=1), unwind=108, timeout=2400, cbmc_extra=['--max-field-sensitivity-array-size', '128'], tiers=['thorough'], mem=30),
]
BOUNDS = {'quick': 'every message of <=3 arbitrary UTF-16 units, 5 types, 6 category cases (null, empty, default, other, Default, defaults), null/non-null file and function, every set of <=3 attributes drawn from the 8 routed names and 4 other names (two colliding with extra keys) with arbitrary 1-unit values; two consecutive events for id freshness',
          'thorough': 'additionally messages of 98..103 units around the 100-character fingerprint cut'}
OUTSIDE = 'JSON text validity and the hexadecimal / ISO-8601 text forms are Qt (QJsonDocument, QUuid, QDateTime): assumed; uniqueness of ids over many events is QUuid::createUuid (modelled as fresh per call)'
ASSUMPTIONS = ['QUuid::createUuid returns a fresh id per call', 'QDateTime::toUTC/toString(ISODate) are opaque but deterministic functions of the message time', 'QJsonDocument round trip (see C13)']

for _j in JOBS:
    _j.setdefault('mem_est', 8)
