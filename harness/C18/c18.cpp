// C18: Sentry events carry the message faithfully.
// Unit: the real formatters/sentryformatter.cpp over the abstract JSON model.
#include "vf_prelude.h"
#include "vf_util.h"
#include "formatters/sentryformatter.cpp"
using namespace QtLogger;

#ifndef VF_MLEN
#define VF_MLEN 3
#endif
static const char *ref_level(int t) { switch (t) { case QtDebugMsg: return "debug"; case QtInfoMsg: return "info"; case QtWarningMsg: return "warning"; case QtCriticalMsg: return "error"; default: return "fatal"; } }
static bool is_id128(const QString &s)
{
#ifdef VF_REAL
    if (s.size() != 32) return false;
    for (int i = 0; i < 32; ++i) { ushort c = s.at(i).unicode(); if (!((c >= '0' && c <= '9') || (c >= 'a' && c <= 'f'))) return false; }
    return true;
#else
    return s.size() == 2 && s.at(0).unicode() == 0xE100 + 3;      // the model's rendering of QUuid::toString(Id128)
#endif
}
// routed attribute names -> (container, key)
struct Route { const char *attr; const char *box; const char *sub; const char *key; };
static const Route g_routes[] = {
    { "appname", "tags", "", "app_name" }, { "appversion", "tags", "", "app_version" },
    { "os_name", "contexts", "os", "name" }, { "os_version", "contexts", "os", "version" }, { "kernel_version", "contexts", "os", "kernel_version" }, { "build_abi", "contexts", "os", "build" },
    { "cpu_arch", "contexts", "device", "arch" }, { "host_name", "contexts", "device", "name" },
};
static const char *const g_other[] = { "u", "seq_number", "line", "thread_id" };     // arbitrary names, two of them colliding with extra's own keys

extern "C" void h_sentry()
{
#ifdef VF_LONG
    // message length around the 100-character fingerprint cut: one repeated unit + a distinct tail unit
    int mlen = vf_range(98, 103);
    unsigned short body = vf_nondet_u16(), tail = vf_nondet_u16();
    QString text = QStringLiteral("");
    for (int i = 0; i < 103; ++i) if (i < mlen) text.append(QChar(i == mlen - 1 ? tail : (i >= 99 ? (unsigned short)(body + 1) : body)));
#else
    QString text = vf_string(VF_MLEN, false, 0x0001, 0xffff);
#endif
    int type = vf_range(0, 4); int line = vf_range(0, 9999);
    static const char *const cats[] = { nullptr, "", "default", "app", "Default", "defaults" };
    int ci = vf_range(0, 5);
    bool nf = vf_nondet_bool(), nu = vf_nondet_bool();
    QMessageLogContext ctx(nf ? nullptr : "f.c", line, nu ? nullptr : "fn", cats[ci]);
    LogMessage msg((QtMsgType)type, ctx, text);
    // attributes: VF_NATTR slots, each any of the 8 routed names or 4 other names (distinct), arbitrary 1-unit values
#ifndef VF_NATTR
#define VF_NATTR 3
#endif
    bool onA[VF_NATTR]; int nmA[VF_NATTR]; QString valA[VF_NATTR];
    for (int k = 0; k < VF_NATTR; ++k) {
        onA[k] = vf_nondet_bool(); nmA[k] = vf_range(0, 11); valA[k] = vf_string(1, false, 0x21, 0xffff);
        for (int j = 0; j < k; ++j) if (onA[j] && onA[k]) vf_assume(nmA[j] != nmA[k]);
        if (onA[k]) msg.setAttribute(QString::fromLatin1(nmA[k] < 8 ? g_routes[nmA[k] < 8 ? nmA[k] : 0].attr : g_other[nmA[k] >= 8 ? nmA[k] - 8 : 0]), valA[k]);
    }
    bool onR[8]; QString valR[8]; bool onO[4]; QString valO[4];
    for (int r = 0; r < 8; ++r) { onR[r] = false; for (int k = 0; k < VF_NATTR; ++k) if (onA[k] && nmA[k] == r) { onR[r] = true; valR[r] = valA[k]; } }
    for (int r = 0; r < 4; ++r) { onO[r] = false; for (int k = 0; k < VF_NATTR; ++k) if (onA[k] && nmA[k] == 8 + r) { onO[r] = true; valO[r] = valA[k]; } }

    SentryFormatter f(QStringLiteral("sdk"), QStringLiteral("1"));
    QString out = f.format(msg);
    vf_assert(!out.contains(QChar('\n')), "event is a single line");
    QJsonObject ev = QJsonDocument::fromJson(out.toUtf8()).object();
    QString level = QString::fromLatin1(ref_level(type));
    QString category = QString::fromLatin1(cats[ci]);
    vf_assert(is_id128(ev.value(QStringLiteral("event_id")).toString()), "event_id is a 32-hex-digit id");
    vf_assert(ev.value(QStringLiteral("timestamp")).toString() == msg.time().toUTC().toString(Qt::ISODate), "timestamp is the message time in UTC ISO-8601");
    vf_assert(ev.value(QStringLiteral("level")).toString() == level, "level mapping debug/info/warning/error/fatal");
    vf_assert(ev.value(QStringLiteral("message")).toObject().value(QStringLiteral("formatted")).toString() == text, "message.formatted equals the message text");
    bool wantLogger = !category.isEmpty() && category != QStringLiteral("default");
    vf_assert(ev.contains(QStringLiteral("logger")) == wantLogger, "logger field only for non-default categories");
    if (wantLogger) vf_assert(ev.value(QStringLiteral("logger")).toString() == category, "logger is the category");
    QJsonArray fp = ev.value(QStringLiteral("fingerprint")).toArray();
    vf_assert(fp.size() == 3, "fingerprint has three parts");
    vf_assert(fp.at(0).toString() == level, "fingerprint[0] is the level");
    vf_assert(fp.at(1).toString() == (category.isEmpty() ? QStringLiteral("default") : category), "fingerprint[1] is the category or default");
    vf_assert(fp.at(2).toString() == text.mid(0, 100), "fingerprint[2] is the first 100 characters of the message");
    // every custom attribute exactly once, value intact
    QJsonObject extra = ev.value(QStringLiteral("extra")).toObject();
    QJsonObject tags = ev.value(QStringLiteral("tags")).toObject();
    QJsonObject contexts = ev.value(QStringLiteral("contexts")).toObject();
    for (int k = 0; k < 8; ++k) {
        QString attr = QString::fromLatin1(g_routes[k].attr);
        QJsonObject box = k < 2 ? tags : contexts.value(QString::fromLatin1(g_routes[k].sub)).toObject();
        QString key = QString::fromLatin1(g_routes[k].key);
        if (onR[k]) {
            vf_assert(box.value(key).toString() == valR[k] && box.contains(key), "routed attribute appears in its tag/context slot with its value");
            vf_assert(!extra.contains(attr), "routed attribute is not repeated under extra");
        } else {
            vf_assert(!box.contains(key), "no slot for an attribute that was not set");
        }
    }
    for (int k = 0; k < 4; ++k) if (onO[k]) {
        QString attr = QString::fromLatin1(g_other[k]);
        vf_assert(extra.contains(attr) && extra.value(attr).toString() == valO[k], "other attribute appears under extra with its value");
        vf_assert(!tags.contains(attr) && !contexts.contains(attr), "other attribute appears only under extra");
    }
    vf_witness();
}

// id freshness: two events for the same message carry different ids
extern "C" void h_sentry_ids()
{
    QMessageLogContext ctx("f.c", 1, "fn", "app");
    LogMessage msg(QtInfoMsg, ctx, QStringLiteral("m"));
    SentryFormatter f(QStringLiteral("sdk"), QStringLiteral("1"));
    QString a = QJsonDocument::fromJson(f.format(msg).toUtf8()).object().value(QStringLiteral("event_id")).toString();
    QString b = QJsonDocument::fromJson(f.format(msg).toUtf8()).object().value(QStringLiteral("event_id")).toString();
    vf_assert(is_id128(a) && is_id128(b) && a != b, "event ids are fresh per event");
    vf_witness();
}
