D = {'QM_STR_CAP': 4, 'QM_HASH_CAP': 2}
REC = {'_ZN8QtLogger8Pipeline7processERNS_10LogMessageE': 4}
JOBS = [
    dict(name='tree_d2', src='c01.cpp', fn='h_tree', defines=dict(D, VF_SLOTS=3, VF_DEPTH=2, VF_MSGS=1, QM_LIST_CAP=32), unwind=34, unwindset=REC, timeout=900),
    dict(name='tree_2msgs', src='c01.cpp', fn='h_tree', defines=dict(D, VF_SLOTS=2, VF_DEPTH=2, VF_MSGS=2, QM_LIST_CAP=32), unwind=34, unwindset=REC, timeout=2400, tiers=['thorough']),
    dict(name='tree_d3', src='c01.cpp', fn='h_tree', defines=dict(D, VF_SLOTS=2, VF_DEPTH=3, VF_MSGS=1, QM_LIST_CAP=32), unwind=34, unwindset=REC, timeout=900),
    dict(name='tree_d3_wide', src='c01.cpp', fn='h_tree', defines=dict(D, VF_SLOTS=3, VF_DEPTH=3, VF_MSGS=2, QM_LIST_CAP=32), unwind=34, unwindset=REC, timeout=2400, tiers=['thorough'], mem=30),
]
BOUNDS = {'quick': 'every tree whose pipelines are S0 N0 S1 N1 S2 (3 handler slots + 2 nested pipelines, scoped flags symbolic) to depth 2, each slot = any of {absent, attribute handler, filter, formatter incl. null/empty results, sink, generic FunctionHandler with side effects} with symbolic parameters and verdicts, shared slot-0 handlers (same object up to 3 invocations, also across pipelines), null entries at every slot, 1 message arriving in any formatted/attribute state; 2-slot variants with 2 messages and with depth 3',
          'thorough': 'additionally 3 slots x depth 3 x 2 messages (up to 39 handler slots)'}
OUTSIDE = 'wider/deeper trees; handlers that mutate the pipeline while it runs; disabled handlers are present as identity handlers rather than absent; SimplePipeline::pipeline()/end() builders (see C19 harness)'
ASSUMPTIONS = ['attribute values are small ints, formatted texts are drawn from {null, empty, F1, F2}: handlers are opaque to Pipeline::process, which only moves QString/QVariantHash values',
               'no reference counting in the QSharedPointer model']
