// C01: pipeline evaluation follows the sequential handler semantics.
// Units: the real pipeline.cpp, attrhandler.h, filter.h, formatter.h, sink.h, functionhandler.h, logmessage.h.
//
// Encoding.  Every pipeline of the tree is   S0 N0 S1 N1 ... S(k-1)   where Ni is a nested pipeline (scoped flag = solver
// variable) and each slot Si is the fixed run  [null entry, attr, filter, formatter, sink, generic handler]  of REAL handler
// objects, of which the solver enables at most one; a disabled handler is an identity handler (merges no attributes /
// passes / re-sets the current formatted text / records nothing).  Kinds, parameters, verdicts and the incoming message
// state are solver variables; handler pointers stay concrete, which keeps virtual dispatch precise for the solver.
// Slot 0's handlers of every pipeline are appended a second time later in the same pipeline and, for the root, once more
// inside the first nested pipeline (shared handlers); the solver decides on which invocations they are active.
// Recording sinks and the residual message state are compared with a reference interpreter over an abstract state.
#include "vf_prelude.h"
#include "vf_util.h"
#include "pipeline.cpp"
#include "attrhandler.h"
#include "filter.h"
#include "formatter.h"
#include "sink.h"
#include "functionhandler.h"
using namespace QtLogger;

#ifndef VF_SLOTS
#define VF_SLOTS 3
#endif
#ifndef VF_DEPTH
#define VF_DEPTH 2
#endif
#ifndef VF_MSGS
#define VF_MSGS 1
#endif
#define NCH (VF_SLOTS - 1)
#if VF_DEPTH == 1
#define MAXNODES 1
#elif VF_DEPTH == 2
#define MAXNODES (1 + NCH)
#else
#define MAXNODES (1 + NCH + NCH * NCH)
#endif
#define MAXREC 4
#define MAXOCC 3

static const QMessageLogContext g_ctx("f.cpp", 1, "fn", "cat");

struct AState { int fmt; int a; int b; };   // fmt: 0 none, 1 "F1", 2 "F2", 3 empty-but-not-null ; a,b: 0 unset, 1, 2
static QString fmt_text(int f) { return f == 1 ? QStringLiteral("F1") : f == 2 ? QStringLiteral("F2") : f == 3 ? QStringLiteral("") : QString(); }
static int fmt_of(const LogMessage &m)
{
    if (!m.isFormatted()) return 0;
    QString f = m.formattedMessage();
    if (f == QStringLiteral("F1")) return 1;
    if (f == QStringLiteral("F2")) return 2;
    if (f.isEmpty()) return 3;
    return 9;
}
static int attr_of(const LogMessage &m, const QString &k) { return m.hasAttribute(k) ? m.attribute(k).toInt() : 0; }

enum Kind { K_NONE = 0, K_ATTR, K_FILTER, K_FORMAT, K_SINK, K_FUNC, K_COUNT };
static int g_msg;

// activity of a handler object on its j-th invocation for the current message
struct Act { bool on[MAXOCC]; int calls; bool next() { bool r = calls < MAXOCC ? on[calls] : false; ++calls; return r; } };

struct HAttr : public AttrHandler {
    Act act; int key = 0, val = 1;
    QVariantHash attributes(const LogMessage &) override { QVariantHash h; if (act.next()) h.insert(key ? QStringLiteral("b") : QStringLiteral("a"), val); return h; }
};
struct HFilter : public Filter { Act act; bool verdict[VF_MSGS]; bool filter(const LogMessage &) override { return act.next() ? verdict[g_msg] : true; } };
struct HFormat : public Formatter {
    Act act; int out = 1;
    QString format(const LogMessage &m) override { if (act.next()) return fmt_text(out); return m.isFormatted() ? m.formattedMessage() : QString(); }
};
struct Rec { int fmt; int a; int b; bool rawOk; bool textOk; int msg; };
struct HSink : public Sink {
    Act act; int n = 0; Rec r[MAXREC];
    void send(const LogMessage &m) override
    {
        if (!act.next()) return;
        if (n < MAXREC) {
            r[n].fmt = fmt_of(m); r[n].a = attr_of(m, QStringLiteral("a")); r[n].b = attr_of(m, QStringLiteral("b"));
            r[n].rawOk = m.message() == QStringLiteral("raw");
            r[n].textOk = m.formattedMessage() == (m.isFormatted() ? fmt_text(fmt_of(m)) : QStringLiteral("raw"));
            r[n].msg = g_msg; ++n;
        }
    }
};
struct FuncState { Act act; int p1, p2; bool verdict[VF_MSGS]; };

struct Slot {
    int kind; int p1; int p2; bool verdict[VF_MSGS]; bool on[MAXOCC];
    QSharedPointer<HAttr> ha; QSharedPointer<HFilter> hf; QSharedPointer<HFormat> hm; QSharedPointer<HSink> hs; FunctionHandlerPtr hg; FuncState *fs;
    int refCalls;   // reference-side invocation counter
};
struct Node { Slot slot[VF_SLOTS]; bool scoped; PipelinePtr pipe; };
static Node g_nodes[MAXNODES];

static void append_slot(Pipeline &p, Slot &sl, int variant)
{
    p.append({ HandlerPtr() });                    // a null entry (only the initializer-list overload lets one in)
    if (variant & 1) { p << sl.ha << sl.hf; p.append({ HandlerPtr(sl.hm), HandlerPtr(sl.hs) }); p.append(sl.hg); }
    else { p.append(sl.ha); p.append(sl.hf); p.append(sl.hm); p.append(sl.hs); p.append(sl.hg); }
}

static void build(int id, int depth, bool scoped)
{
    Node &nd = g_nodes[id];
    nd.scoped = scoped;
    nd.pipe = PipelinePtr::create(scoped);
    for (int s = 0; s < VF_SLOTS; ++s) {
        Slot &sl = nd.slot[s];
        sl.kind = vf_range(0, K_COUNT - 1);
        sl.p1 = vf_range(0, 3); sl.p2 = vf_range(1, 2);
        for (int mi = 0; mi < VF_MSGS; ++mi) sl.verdict[mi] = vf_nondet_bool();
        // slot 0 objects are appended up to MAXOCC times (shared handlers); the others once
        for (int j = 0; j < MAXOCC; ++j) sl.on[j] = (s == 0) ? vf_nondet_bool() : (j == 0);
        sl.ha = QSharedPointer<HAttr>::create(); sl.ha->key = sl.p1 & 1; sl.ha->val = sl.p2;
        sl.hf = QSharedPointer<HFilter>::create(); for (int mi = 0; mi < VF_MSGS; ++mi) sl.hf->verdict[mi] = sl.verdict[mi];
        sl.hm = QSharedPointer<HFormat>::create(); sl.hm->out = sl.p1;
        sl.hs = QSharedPointer<HSink>::create();
        FuncState *fs = new FuncState(); fs->p1 = sl.p1; fs->p2 = sl.p2; for (int mi = 0; mi < VF_MSGS; ++mi) fs->verdict[mi] = sl.verdict[mi];
        sl.fs = fs;
        // generic handler: side effect by p1: 0 none, 1 set attr a=p2, 2 set formatted "F2", 3 clear formatted text; then its verdict
        sl.hg = FunctionHandlerPtr::create([fs](LogMessage &m) {
            if (!fs->act.next()) return true;
            if (fs->p1 == 1) m.setAttribute(QStringLiteral("a"), fs->p2);
            else if (fs->p1 == 2) m.setFormattedMessage(QStringLiteral("F2"));
            else if (fs->p1 == 3) m.setFormattedMessage(QString());
            return fs->verdict[g_msg];
        });
        for (int j = 0; j < MAXOCC; ++j) {
            sl.ha->act.on[j] = sl.kind == K_ATTR && sl.on[j];
            sl.hf->act.on[j] = sl.kind == K_FILTER && sl.on[j];
            sl.hm->act.on[j] = sl.kind == K_FORMAT && sl.on[j];
            sl.hs->act.on[j] = sl.kind == K_SINK && sl.on[j];
            fs->act.on[j] = sl.kind == K_FUNC && sl.on[j];
        }
        append_slot(*nd.pipe, sl, s);
        if (s == VF_SLOTS - 1 && VF_SLOTS > 1) append_slot(*nd.pipe, nd.slot[0], 0);      // slot 0's objects again, at the end of the same pipeline
        if (s < NCH && depth < VF_DEPTH) {
            int c = id * NCH + s + 1;
            build(c, depth + 1, vf_nondet_bool());
            if (id == 0 && s == 0) append_slot(*g_nodes[c].pipe, nd.slot[0], 1);              // ... and inside the first nested pipeline (shared across pipelines)
            nd.pipe->append(g_nodes[c].pipe);
        }
    }
}

// ---- reference interpreter (written from the statement) ----
struct Exp { int n; Rec r[MAXREC]; };
static Exp g_exp[MAXNODES][VF_SLOTS];

static bool ref_simple(int id, int s, AState &st, int mi)
{
    Slot &sl = g_nodes[id].slot[s];
    // every object of the slot run is invoked once (identity unless it is the enabled kind and active on this invocation)
    int j = sl.refCalls++;
    bool active = j < MAXOCC && sl.on[j];
    if (!active) return true;
    switch (sl.kind) {
    case K_ATTR: if (sl.p1 & 1) st.b = sl.p2; else st.a = sl.p2; return true;
    case K_FILTER: return sl.verdict[mi];
    case K_FORMAT: st.fmt = sl.p1; return true;           // out 0 = null string = "nothing formatted it"
    case K_SINK: { Exp &x = g_exp[id][s]; if (x.n < MAXREC) { x.r[x.n].fmt = st.fmt; x.r[x.n].a = st.a; x.r[x.n].b = st.b; x.r[x.n].msg = mi; ++x.n; } return true; }
    case K_FUNC:
        if (sl.p1 == 1) st.a = sl.p2; else if (sl.p1 == 2) st.fmt = 2; else if (sl.p1 == 3) st.fmt = 0;
        return sl.verdict[mi];
    default: return true;
    }
}
static void ref_run(int id, int depth, AState &st, int mi, bool sharedRootSlot)
{
    Node &nd = g_nodes[id];
    AState saved = st;
    bool alive = true;
    for (int s = 0; s < VF_SLOTS; ++s) {
        if (alive && !ref_simple(id, s, st, mi)) alive = false;            // a rejecting handler skips the rest of ITS pipeline only
        if (s == VF_SLOTS - 1 && VF_SLOTS > 1 && alive && !ref_simple(id, 0, st, mi)) alive = false;   // slot 0's objects again
        if (s < NCH && depth < VF_DEPTH && alive)
            ref_run(id * NCH + s + 1, depth + 1, st, mi, id == 0 && s == 0);                          // a nested pipeline never stops its parent
    }
    if (sharedRootSlot && alive && !ref_simple(0, 0, st, mi)) alive = false;                          // root slot 0's objects inside the first child
    if (nd.scoped) st = saved;                                               // effects of a scoped pipeline are invisible afterwards
}

extern "C" void h_tree()
{
    build(0, 1, vf_nondet_bool());
    for (int i = 0; i < MAXNODES; ++i) for (int s = 0; s < VF_SLOTS; ++s) g_exp[i][s].n = 0;
    for (int mi = 0; mi < VF_MSGS; ++mi) {
        LogMessage msg((QtMsgType)vf_range(0, 4), g_ctx, QStringLiteral("raw"));
        AState st; st.fmt = vf_range(0, 3); st.a = vf_range(0, 2); st.b = 0;      // the message may arrive already formatted / attributed
        if (st.fmt) msg.setFormattedMessage(fmt_text(st.fmt));
        if (st.a) msg.setAttribute(QStringLiteral("a"), st.a);
        g_msg = mi;
        for (int i = 0; i < MAXNODES; ++i) for (int s = 0; s < VF_SLOTS; ++s) if (g_nodes[i].pipe) {
            Slot &sl = g_nodes[i].slot[s];
            sl.ha->act.calls = 0; sl.hf->act.calls = 0; sl.hm->act.calls = 0; sl.hs->act.calls = 0; sl.fs->act.calls = 0; sl.refCalls = 0;
        }
        bool ret = g_nodes[0].pipe->process(msg);
        vf_assert(ret, "Pipeline::process returns true (a pipeline never rejects)");
        ref_run(0, 1, st, mi, false);
        vf_assert(fmt_of(msg) == st.fmt, "formatted text after the run equals the reference (scoped effects rolled back, unscoped persist)");
        vf_assert(attr_of(msg, QStringLiteral("a")) == st.a && attr_of(msg, QStringLiteral("b")) == st.b, "attributes after the run equal the reference");
    }
    for (int i = 0; i < MAXNODES; ++i) for (int s = 0; s < VF_SLOTS; ++s) if (g_nodes[i].pipe) {
        HSink &sk = *g_nodes[i].slot[s].hs; Exp &e = g_exp[i][s];
        vf_assert(sk.n == e.n, "every sink receives exactly the predicted number of deliveries");
        for (int j = 0; j < MAXREC; ++j) if (j < e.n && j < sk.n) {
            vf_assert(sk.r[j].msg == e.r[j].msg, "deliveries arrive in order");
            vf_assert(sk.r[j].fmt == e.r[j].fmt, "sink sees the latest formatted text (or none)");
            vf_assert(sk.r[j].a == e.r[j].a && sk.r[j].b == e.r[j].b, "sink sees exactly the attributes in-order evaluation predicts");
            vf_assert(sk.r[j].rawOk, "raw message text is never altered");
            vf_assert(sk.r[j].textOk, "formattedMessage() is the formatted text, or the raw message when unformatted");
        }
    }
    vf_witness();
}
