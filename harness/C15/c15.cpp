// C15: category rules decide exactly as ordered Qt-style rules prescribe.
// Unit: the real filters/categoryfilter.cpp (constructor, parseRules, Rule::matches, filter) over the regex model.
#include "vf_prelude.h"
#include "vf_util.h"
#include "filters/categoryfilter.cpp"
using namespace QtLogger;

#ifndef VF_PLEN
#define VF_PLEN 3
#endif
#ifndef VF_CLEN
#define VF_CLEN 4
#endif

// glob reference: '*' matches any (possibly empty) run of characters, everything else literally; whole-string match
static bool glob_match(const unsigned short *pat, int pn, const unsigned short *s, int sn)
{
    // reach[i][j]: pat[0..i) matches s[0..j)
    bool reach[8][8];
    for (int i = 0; i < 8; ++i) for (int j = 0; j < 8; ++j) reach[i][j] = false;
    reach[0][0] = true;
    for (int i = 0; i < 7; ++i) for (int j = 0; j < 8; ++j) if (i < pn && j <= sn) {
        if (!reach[i][j]) continue;
        if (pat[i] == '*') { for (int k = 0; k < 8; ++k) if (k >= j && k <= sn) reach[i + 1][k] = true; }
        else if (j < sn && s[j] == pat[i]) reach[i + 1][j + 1] = true;
    }
    bool r = false;
    for (int i = 0; i < 8; ++i) for (int j = 0; j < 8; ++j) if (i == pn && j == sn && reach[i][j]) r = true;
    return r;
}

static const unsigned short g_alpha[] = { 'a', 'b', '.', '*', '+', '(', '/', '?' };
static const char *const g_types[] = { "", ".debug", ".info", ".warning", ".critical" };
static const QtMsgType g_typeVal[] = { QtDebugMsg, QtDebugMsg, QtInfoMsg, QtWarningMsg, QtCriticalMsg };

// ---- (B) one rule "<pattern>=false": verdict for every pattern x category x type vs the glob reference
extern "C" void h_glob()
{
    unsigned short pat[VF_PLEN], cat[VF_CLEN];
    int pn = vf_range(1, VF_PLEN), cn = vf_range(0, VF_CLEN);
    QString rules = QStringLiteral("");
    for (int i = 0; i < VF_PLEN; ++i) { pat[i] = g_alpha[vf_range(0, 7)]; if (i < pn) rules.append(QChar(pat[i])); }
    // the category captured by the rule line must not swallow a type suffix: keep patterns that do not end in ".debug" etc. (they cannot: <= VF_PLEN chars)
    rules.append(QStringLiteral("=false"));
    char cbuf[VF_CLEN + 1];
    for (int i = 0; i < VF_CLEN; ++i) { cat[i] = g_alpha[vf_range(0, 7)]; cbuf[i] = i < cn ? char(cat[i]) : 0; }
    cbuf[VF_CLEN] = 0;
    QtMsgType t = (QtMsgType)vf_range(0, 4);
    CategoryFilter f(rules);
    QMessageLogContext ctx("f", 1, "fn", cbuf);
    LogMessage msg(t, ctx, QStringLiteral("m"));
    bool verdict = f.filter(msg);
    bool m = glob_match(pat, pn, cat, cn);
    vf_assert(f.m_rules.size() == 1, "a well-formed rule line yields exactly one rule");
    vf_assert(verdict == !m, "single untyped rule: message dropped iff the category matches the * glob (metacharacters are literal)");
    vf_witness();
}

// ---- (A) one rule line with optional blanks and type suffix: typed rules apply to their type only
extern "C" void h_typed()
{
    unsigned short pat[2];
    int pn = vf_range(1, 2);
    pat[0] = g_alpha[vf_range(0, 3)]; pat[1] = g_alpha[vf_range(0, 3)];
    int ti = vf_range(0, 4); bool val = vf_nondet_bool();
    bool b0 = vf_nondet_bool(), b1 = vf_nondet_bool(), b2 = vf_nondet_bool(), b3 = vf_nondet_bool();
    QString line = QStringLiteral("");
    if (b0) line.append(QChar(' '));
    for (int i = 0; i < 2; ++i) if (i < pn) line.append(QChar(pat[i]));
    line.append(QString::fromLatin1(g_types[ti]));
    if (b1) line.append(QChar(' '));
    line.append(QChar('='));
    if (b2) line.append(QChar('\t'));
    line.append(val ? QStringLiteral("true") : QStringLiteral("false"));
    if (b3) line.append(QChar(' '));
    unsigned short cat[2]; int cn = vf_range(0, 2); char cbuf[3];
    for (int i = 0; i < 2; ++i) { cat[i] = g_alpha[vf_range(0, 3)]; cbuf[i] = i < cn ? char(cat[i]) : 0; }
    cbuf[2] = 0;
    QtMsgType t = (QtMsgType)vf_range(0, 4);
    CategoryFilter f(line);
    QMessageLogContext ctx("f", 1, "fn", cbuf);
    LogMessage msg(t, ctx, QStringLiteral("m"));
    bool verdict = f.filter(msg);
    bool applies = glob_match(pat, pn, cat, cn) && (ti == 0 || g_typeVal[ti] == t);
    vf_assert(verdict == (applies ? val : true), "one rule line (blanks, optional .type suffix): decides iff category and type match, else the message passes");
    vf_witness();
}

// ---- (C) ordered evaluation: up to 3 lines from a menu (incl. malformed ones), ';' or newline separators, last match wins
struct MenuLine { const char *text; bool valid; const char *pat; int ti; bool val; };
static const MenuLine g_menu[] = {
    { "a*=false", true, "a*", 0, false },
    { "a.b=true", true, "a.b", 0, true },
    { "*.info=false", true, "*", 2, false },
    { "a.info=true", true, "a", 2, true },
    { "*=true", true, "*", 0, true },
    { "b=maybe", false, "", 0, false },          // malformed value: ignored
    { "=false", false, "", 0, false },           // no category: ignored
    { "a b=false", false, "", 0, false },        // blank inside the category: ignored
    { "a.fatal=false", true, "a.fatal", 0, false },   // "fatal" is not a rule type: part of the category
    { " ", false, "", 0, false },
};
#define NMENU 10
extern "C" void h_ordered()
{
#ifndef VF_LINES
#define VF_LINES 2
#endif
    int pick[VF_LINES]; bool use[VF_LINES];
    QString rules = QStringLiteral("");
    for (int k = 0; k < VF_LINES; ++k) {
        pick[k] = vf_range(0, NMENU - 1); use[k] = vf_nondet_bool(); bool nl = vf_nondet_bool();
        if (use[k]) {
            for (int j = 0; j < NMENU; ++j) if (j == pick[k]) rules.append(QString::fromLatin1(g_menu[j].text));
            rules.append(QChar(nl ? '\n' : ';'));
        }
    }
    static const char *const cats[] = { "a", "a.b", "ab", "b", "a.fatal", "" };
    int ci = vf_range(0, 5);
    QtMsgType t = (QtMsgType)vf_range(0, 4);
    CategoryFilter f(rules);
    QMessageLogContext ctx("f", 1, "fn", cats[ci]);
    LogMessage msg(t, ctx, QStringLiteral("m"));
    bool verdict = f.filter(msg);
    // reference: ordered evaluation, last matching rule decides, default pass, malformed lines ignored
    bool expect = true;
    unsigned short cu[8]; int cn = 0; for (int i = 0; i < 8 && cats[ci][i]; ++i) { cu[i] = (unsigned char)cats[ci][i]; cn = i + 1; }
    for (int k = 0; k < VF_LINES; ++k) if (use[k]) for (int j = 0; j < NMENU; ++j) if (j == pick[k] && g_menu[j].valid) {
        unsigned short pu[8]; int pn = 0; for (int i = 0; i < 8 && g_menu[j].pat[i]; ++i) { pu[i] = (unsigned char)g_menu[j].pat[i]; pn = i + 1; }
        if (glob_match(pu, pn, cu, cn) && (g_menu[j].ti == 0 || g_typeVal[g_menu[j].ti] == t)) expect = g_menu[j].val;
    }
    vf_assert(verdict == expect, "ordered rules: the last matching rule decides, unmatched messages pass, malformed lines are ignored");
    vf_witness();
}
