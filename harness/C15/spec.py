RX = {'QM_RX_MAXSEG': 14, 'QM_RX_FLAT': 1}
# loops over the (<= QM_LIST_CAP) parsed lines / rules: bound = capacity + 1 (checked by unwinding assertions)
UP = {'CategoryFilter10parseRules': 2, 'CategoryFilter6filter': 2, 'glob_match': 80}
UP4 = {'CategoryFilter10parseRules': 5, 'CategoryFilter6filter': 5, 'glob_match': 80}
JOBS = [
    dict(name='glob', src='c15.cpp', fn='h_glob', defines=dict(RX, QM_STR_CAP=14, QM_LIST_CAP=1, QM_HASH_CAP=6, VF_PLEN=3, VF_CLEN=4), defines_thorough=dict(QM_STR_CAP=16, VF_PLEN=4, VF_CLEN=5), unwind=18, unwind_patterns=UP, timeout=900),
    dict(name='typed', src='c15.cpp', fn='h_typed', defines=dict(RX, QM_STR_CAP=22, QM_LIST_CAP=1, QM_HASH_CAP=6), unwind=24, unwind_patterns=UP, timeout=900),
    dict(name='ordered', src='c15.cpp', fn='h_ordered', defines=dict(RX, QM_STR_CAP=29, QM_LIST_CAP=2, QM_HASH_CAP=6, VF_LINES=2), unwind=31, mem=20, tiers=['thorough'], unwind_patterns={'CategoryFilter10parseRules': 3, 'CategoryFilter6filter': 3, 'glob_match': 80}, timeout=1500),
    dict(name='ordered3', src='c15.cpp', fn='h_ordered', defines=dict(RX, QM_STR_CAP=44, QM_LIST_CAP=3, QM_HASH_CAP=6, VF_LINES=3), unwind=46, unwind_patterns={'CategoryFilter10parseRules': 4, 'CategoryFilter6filter': 4, 'glob_match': 80}, timeout=3000, tiers=['thorough'], mem=30),
]
BOUNDS = {'quick': 'glob: every rule pattern of <=3 characters over {a,b,.,*,+,(,/,?} x every category of <=4 characters x 5 types; typed: every line [blank]pattern(<=2)[.type][blank]=[tab](true|false)[blank] x category x type; ordered: every list of <=2 (thorough: 3) lines drawn from 10 lines (5 malformed kinds) with ; or newline separators x 6 categories x 5 types',
          'thorough': 'glob with patterns <=4 and categories <=5'}
OUTSIDE = 'longer rule lists / patterns / categories; non-ASCII categories; rule lines longer than the string capacity'
ASSUMPTIONS = ['QRegularExpression is the regex model of qtmodel/qm_regex_impl.h (validated against the real engine by vf conform on every expression of the repository)']

for _j in JOBS:
    _j.setdefault('mem_est', 5)
