// C16: built-in filters and counters -- harnesses over the real levelfilter.h, duplicatefilter.cpp,
// regexpfilter.cpp, seqnumberattr.cpp (+ pipeline.cpp for the shared-handler case).
#include "vf_prelude.h"
#include "vf_util.h"
#include "pipeline.cpp"
#include "sink.h"
#include "filter.h"
#include "filters/duplicatefilter.cpp"
#include "filters/levelfilter.h"
#include "attrhandlers/seqnumberattr.cpp"
#include "filters/regexpfilter.cpp"
using namespace QtLogger;

#ifndef VF_N
#define VF_N 3
#endif
#ifndef VF_SLEN
#define VF_SLEN 2
#endif

static const QMessageLogContext g_ctx("f.cpp", 1, "fn", "cat");

// severity ranking written from the property statement: debug < info < warning < critical < fatal
static int rank_of(QtMsgType t)
{
    switch (t) {
    case QtDebugMsg: return 0;
    case QtInfoMsg: return 1;
    case QtWarningMsg: return 2;
    case QtCriticalMsg: return 3;
    case QtFatalMsg: return 4;
    }
    return -1;
}

extern "C" void h_level()
{
    QtMsgType t = (QtMsgType)vf_range(0, 4), m = (QtMsgType)vf_range(0, 4);
    LevelFilter f(m);
    LogMessage msg(t, g_ctx, QStringLiteral("x"));
    vf_assert(f.filter(msg) == (rank_of(t) >= rank_of(m)), "level filter passes iff severity >= threshold");
    // through the Handler interface too (process() is what pipelines call)
    LogMessage msg2(t, g_ctx, QStringLiteral("y"));
    Handler *h = &f;
    vf_assert(h->process(msg2) == (rank_of(t) >= rank_of(m)), "level filter process() == filter()");
    vf_witness();
}

// reference automaton for the duplicate filter: drop iff text equals the previous text seen (initially empty)
static bool ref_texts_equal(const QString &a, const QString &b)
{
    if (a.size() != b.size()) return false;
    for (int i = 0; i < a.size(); ++i) if (a.at(i).unicode() != b.at(i).unicode()) return false;
    return true;
}

extern "C" void h_dup_seq()
{
    // any sequence of VF_N texts of <= VF_SLEN arbitrary UTF-16 units (null and empty included) through one filter:
    // the filter's state is only ever established through its own API
    DuplicateFilter f;
    QString prev = QStringLiteral("");
    for (int i = 0; i < VF_N; ++i) {
        QString text = vf_string(VF_SLEN, true, 0x0001, 0xffff);
        LogMessage msg((QtMsgType)vf_range(0, 4), g_ctx, text);
        bool pass = f.filter(msg);
        bool expect = !ref_texts_equal(text, prev);
        vf_assert(pass == expect, "duplicate filter drops iff text equals previous text");
        prev = text;
    }
    vf_witness();
}

// sequence numbers: handler shared by two pipelines, later filters rejecting some messages
struct RejectFilter : public Filter { bool verdict = true; bool filter(const LogMessage &) override { return verdict; } };
struct Recorder : public Sink {
    int n = 0; int seq[8]; bool has[8];
    void send(const LogMessage &m) override { if (n < 8) { has[n] = m.hasAttribute(QStringLiteral("seq_number")); seq[n] = m.attribute(QStringLiteral("seq_number")).toInt(); ++n; } }
};

extern "C" void h_seq_shared()
{
    auto seqh = SeqNumberAttrPtr::create();
    auto rejA = QSharedPointer<RejectFilter>::create();
    auto rejB = QSharedPointer<RejectFilter>::create();
    auto recA = QSharedPointer<Recorder>::create();
    auto recB = QSharedPointer<Recorder>::create();
    Pipeline a, b;
    a.append(seqh); a.append(rejA); a.append(recA);
    b.append(seqh); b.append(rejB); b.append(recB);
    int expectNext = 0; int na = 0, nb = 0;
    for (int i = 0; i < VF_N; ++i) {
        bool useA = vf_nondet_bool();
        bool pass = vf_nondet_bool();
        LogMessage msg(QtInfoMsg, g_ctx, QStringLiteral("m"));
        if (useA) { rejA->verdict = pass; a.process(msg); } else { rejB->verdict = pass; b.process(msg); }
        // the number is assigned whether or not a later handler drops the message
        vf_assert(msg.hasAttribute(QStringLiteral("seq_number")), "seq number attribute present");
        vf_assert(msg.attribute(QStringLiteral("seq_number")).toInt() == expectNext, "seq numbers consecutive across pipelines and rejections");
        Recorder *r = useA ? recA.data() : recB.data();
        int &cnt = useA ? na : nb;
        if (pass) { vf_assert(r->n == cnt + 1 && r->seq[cnt] == expectNext, "sink sees the number"); ++cnt; }
        else vf_assert(r->n == cnt, "rejected message not delivered");
        ++expectNext;
    }
    vf_witness();
}

// one step from an arbitrary counter value (two calls): covers histories of any length below 2^31-1 messages
extern "C" void h_seq_step()
{
    SeqNumberAttr h(QStringLiteral("n"));
    int c = vf_nondet_int();
    vf_assume(c >= 0 && c < 2147483646);
    h.m_count = c;
    LogMessage m1(QtDebugMsg, g_ctx, QStringLiteral("a"));
    LogMessage m2(QtDebugMsg, g_ctx, QStringLiteral("b"));
    QVariantHash a1 = h.attributes(m1);
    vf_assert(a1.size() == 1 && a1.contains(QStringLiteral("n")), "seq step: exactly the named attribute");
    vf_assert(a1.value(QStringLiteral("n")).toLongLong() == (long long)c, "seq step: value is the current count");
    QVariantHash a2 = h.attributes(m2);
    vf_assert(a2.value(QStringLiteral("n")).toLongLong() == (long long)c + 1, "seq step: next value is exactly one more");
    vf_witness();
}

// the 2^31-th message: the int counter overflows (undefined behaviour) -- recorded as a known finding
extern "C" void h_seq_at_max()
{
    SeqNumberAttr h(QStringLiteral("n"));
    h.m_count = 2147483647;
    LogMessage m1(QtDebugMsg, g_ctx, QStringLiteral("a"));
    QVariantHash a1 = h.attributes(m1);
    vf_assert(a1.value(QStringLiteral("n")).toLongLong() == 2147483647LL, "seq at max: value is the current count");
    vf_witness();
}

// regular-expression filter: passes iff the expression matches the message text -- for every message of a sequence
// (a filter object must not carry state from one message to the next).  Oracles are hand-written predicates per expression.
#ifndef VF_RX
#define VF_RX 0
#endif
static bool ref_rx(int k, const QString &t)
{
    const int n = t.size();
    switch (k) {
    case 0: { bool r = false; for (int i = 0; i + 2 < n; ++i) if (t.at(i).unicode() == 'e' && t.at(i + 1).unicode() == 'r' && t.at(i + 2).unicode() == 'r') r = true; return r; }   // "err"
    case 1: { bool nl = false; for (int i = 0; i < n; ++i) if (t.at(i).unicode() == '\n') nl = true; return n >= 2 && t.at(0).unicode() == 'a' && t.at(n - 1).unicode() == 'b' && !nl; }   // "^a.*b$"
    case 2: return n == 0;                                    // "^$"
    case 3: return true;                                      // ".*"
    default: { bool r = false; for (int i = 0; i < n; ++i) if (t.at(i).unicode() == 'a') r = true; return r; }   // "a+b?"
    }
}
extern "C" void h_regexp()
{
    static const char *const pats[] = { "err", "^a.*b$", "^$", ".*", "a+b?" };
    RegExpFilter f(QString::fromLatin1(pats[VF_RX]));
    static const unsigned short menu[] = { 'a', 'b', 'e', 'r', ' ', '\n' };
    for (int i = 0; i < 2; ++i) {
        QString text = vf_nondet_bool() ? QString() : vf_string_menu(3, menu, 6);
        LogMessage msg(QtDebugMsg, g_ctx, text);
        vf_assert(f.filter(msg) == ref_rx(VF_RX, text), "regexp filter passes iff the expression matches the message text");
    }
    vf_witness();
}
