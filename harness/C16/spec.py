JOBS = [
    dict(name='level', src='c16.cpp', fn='h_level', defines={'QM_STR_CAP': 12}, timeout=120),
    dict(name='dup_seq', src='c16.cpp', fn='h_dup_seq', defines={'QM_STR_CAP': 12, 'VF_N': 4}, defines_thorough={'VF_N': 6, 'VF_SLEN': 3}, timeout=300),
    dict(name='seq_shared', src='c16.cpp', fn='h_seq_shared', defines={'QM_STR_CAP': 12, 'VF_N': 3}, defines_thorough={'VF_N': 4}, timeout=300),
    dict(name='seq_step', src='c16.cpp', fn='h_seq_step', defines={'QM_STR_CAP': 12}, timeout=300),
    dict(name='seq_at_max', src='c16.cpp', fn='h_seq_at_max', defines={'QM_STR_CAP': 12}, timeout=300),
]
BOUNDS = {'quick': 'level: all 25 (type,threshold) pairs; duplicate: sequences of 3 texts of <=2 UTF-16 units over {a,A,space,b,e-acute,combining-acute,null} + one step from any state with <=2 arbitrary units; seq: 3 calls over 2 pipelines sharing the handler + one step from any counter value',
          'thorough': 'same with sequences of 5 / 4'}
OUTSIDE = 'texts longer than 2 units in the sequence harness (the step harness is length-generic only up to 2 units); RegExpFilter (see regexp jobs)'
ASSUMPTIONS = ['QString equality is code-unit equality (Qt contract)', 'no reference counting in the QSharedPointer model']
