JOBS = [
    dict(name='level', src='c16.cpp', fn='h_level', defines={'QM_STR_CAP': 12}, timeout=120),
    dict(name='dup_seq', src='c16.cpp', fn='h_dup_seq', defines={'QM_STR_CAP': 12, 'VF_N': 4}, defines_thorough={'VF_N': 6, 'VF_SLEN': 3}, timeout=300),
    dict(name='seq_shared', src='c16.cpp', fn='h_seq_shared', defines={'QM_STR_CAP': 12, 'VF_N': 3}, defines_thorough={'VF_N': 4}, timeout=300),
    dict(name='seq_step', src='c16.cpp', fn='h_seq_step', defines={'QM_STR_CAP': 12}, timeout=300),
    dict(name='seq_at_max', src='c16.cpp', fn='h_seq_at_max', defines={'QM_STR_CAP': 12}, timeout=300),
]
for _k in range(5):
    JOBS.append(dict(name='regexp%d' % _k, src='c16.cpp', fn='h_regexp', defines={'QM_STR_CAP': 12, 'QM_RX_FLAT': 1, 'VF_RX': _k}, timeout=600))
BOUNDS = {'quick': 'level: all 25 (type,threshold) pairs; duplicate: sequences of 4 texts of <=2 arbitrary UTF-16 units (null included) through the filter API only; regexp: 5 expressions (err, ^a.*b$, ^$, .*, a+b?) x sequences of 2 messages of <=3 units over {a,b,e,r,space,newline,null}; seq: 3 calls over 2 pipelines sharing the handler + one step from any counter value',
          'thorough': 'same with sequences of 5 / 4'}
OUTSIDE = 'longer texts / sequences; regular expressions outside the flat fragment of the regex model (the matcher itself is Qt/PCRE)'
ASSUMPTIONS = ['QString equality is code-unit equality (Qt contract)', 'no reference counting in the QSharedPointer model']
