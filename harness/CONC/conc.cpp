// Concurrency family (C02, C03, C04): the real logger.cpp (messageHandler, processMessage, install/restore, destructor),
// ownthreadhandler.h (process, moveToOwnThread, resetOwnThread, LogEvent, Worker::customEvent, destructor), pipeline.cpp,
// seqnumberattr.cpp, logmessage.h copy constructor -- under the nested-preemption scheduler of qtmodel/qm_thread_full.h.
// Producers are model threads that each log VF_MSGS messages in program order through Qt's installed message handler;
// the worker thread is the QThread created by moveToOwnThread.  At every yield point (mutex lock/unlock, atomic access,
// postEvent, msleep, wait, inside the probe sink) the scheduler may run pending steps of the other threads, nested.
#include "vf_prelude.h"
#include "vf_util.h"
#include "pipeline.cpp"
#include "sortedpipeline.cpp"
#include "simplepipeline.cpp"
#include "configure.cpp"
#include "logger.cpp"
#include "attrhandlers/seqnumberattr.cpp"
using namespace QtLogger;

#ifndef VF_PROD
#define VF_PROD 2
#endif
#ifndef VF_MSGS
#define VF_MSGS 1
#endif
#ifndef VF_ROUNDS
#define VF_ROUNDS 3
#endif
#ifndef VF_DEPTH
#define VF_DEPTH 2
#endif
#ifndef VF_PROP
#define VF_PROP 2
#endif
#define NMSG (VF_PROD * VF_MSGS)
#define P(n) (VF_PROP == (n))

// ---- what the sinks observe
struct Delivery { int id; int seq; int tid; bool contentOk; };
static Delivery g_del[NMSG + 2]; static int g_ndel;
static int g_inflight, g_maxInflight;
static int g_next[VF_PROD];            // next message index of each producer
static bool g_busy[VF_PROD];           // producer is inside a log call
static int g_started[NMSG], g_returned[NMSG]; static int g_ticket;   // real-time order: ticket when a call began / returned
static int g_depth;
static Logger *g_logger;
static QThread *g_worker;
static bool g_async;
static char *g_buf[NMSG];              // caller-owned source-location buffers (freed right after the call returns)

static int tid_of_producer(int p) { return 10 + p; }
static ushort text_of(int id) { return ushort('a' + id); }

struct ProbeSink : public Sink {
    void send(const LogMessage &m) override
    {
        ++g_inflight; if (g_inflight > g_maxInflight) g_maxInflight = g_inflight;
        if (P(2)) vf_assert(g_inflight == 1, "no two threads are inside the pipeline at the same moment");
        int id = m.message().size() == 1 ? m.message().at(0).unicode() - 'a' : -1;
        Delivery d; d.id = id; d.tid = qm_cur_tid;
#ifndef VF_NOSEQ
        d.seq = m.attribute(QStringLiteral("seq_number")).toInt();
#else
        d.seq = g_ndel;          // jobs without the sequence-number handler (C04: what is delivered, not how it is numbered)
#endif
        // content as logged: type, line, file/function/category text, originating thread id
        bool ok = id >= 0 && id < NMSG;
        if (ok) {
            int p = id / VF_MSGS;
            ok = m.type() == (QtMsgType)((id * 2) % 5) && m.line() == 100 + id && m.threadId() == quint64(0x1000) * quint64(tid_of_producer(p))
                 && m.file() != nullptr && m.file()[0] == char('F' + id) && m.file()[1] == 0
                 && m.function() != nullptr && m.function()[0] == char('f') && m.function()[1] == char('0' + id) && m.function()[2] == 0
                 && m.category() != nullptr && m.category()[0] == 'c' && m.category()[1] == 0;
        }
        d.contentOk = ok;
        if (g_ndel < NMSG + 2) g_del[g_ndel] = d;
        ++g_ndel;
        qm_yield(QM_Y_USER);          // a slow sink: other threads get the chance to run while this one is inside
        --g_inflight;
    }
};

// one complete log call of producer p (its next message), through Qt's installed handler
static void producer_step(int p)
{
    int idx = g_next[p]; int id = p * VF_MSGS + idx;
    g_next[p] = idx + 1; g_busy[p] = true;
    int saved = qm_cur_tid; qm_cur_tid = tid_of_producer(p);
    // caller-owned buffers: file "X", function "fN"
    char *buf = new char[5];
    buf[0] = char('F' + id); buf[1] = 0; buf[2] = 'f'; buf[3] = char('0' + id); buf[4] = 0;
    g_started[id] = ++g_ticket;
    {
        QMessageLogContext ctx(buf, 100 + id, buf + 2, "c");
        QString text(QChar(text_of(id)));
        QtMessageHandler h = qInstallMessageHandler(nullptr); qInstallMessageHandler(h);     // what qt_message_output calls
        if (h) h((QtMsgType)((id * 2) % 5), ctx, text);      // debug, critical, info, warning, ...
    }
    g_returned[id] = ++g_ticket;
    delete[] buf;                      // the caller's buffers are gone as soon as the call returns
    qm_cur_tid = saved; g_busy[p] = false;
}

// the scheduler: called at every yield point; runs up to 2 pending steps of other threads, nested
static void scheduler(int point)
{
    if (g_depth >= VF_DEPTH) return;
    ++g_depth;
    // fairness of sleeping / waiting: a thread that sleeps or waits lets the worker make progress if it can
    if ((point == QM_Y_SLEEP || point == QM_Y_WAIT) && g_worker) g_worker->step();
#ifndef VF_SCHED_K
#define VF_SCHED_K 2          // scheduling choices per yield point
#endif
    for (int k = 0; k < VF_SCHED_K; ++k) {
        int who = vf_range(-1, VF_PROD);          // -1: nobody, 0..P-1: a producer, P: the worker
        if (who >= 0 && who < VF_PROD) {
            for (int p = 0; p < VF_PROD; ++p) if (p == who && !g_busy[p] && g_next[p] < VF_MSGS && qm_cur_tid != tid_of_producer(p)) producer_step(p);
        } else if (who == VF_PROD && g_worker && g_worker->m_tid != qm_cur_tid) {
            g_worker->step();
        }
    }
    --g_depth;
}

static void check_deliveries(int expected)
{
    // exactly once, per-producer order, consecutive sequence numbers in delivery order, content intact
    vf_assert(g_ndel == expected, "every message is delivered exactly once (count)");
    int seen[NMSG]; for (int i = 0; i < NMSG; ++i) seen[i] = 0;
    for (int k = 0; k < NMSG; ++k) if (k < g_ndel) {
        int id = g_del[k].id;
        vf_assert(id >= 0 && id < NMSG, "delivered message is one that was logged");
        for (int i = 0; i < NMSG; ++i) if (i == id) ++seen[i];
        vf_assert(g_del[k].seq == k, "sequence numbers are consecutive in delivery order");
        if (P(3)) vf_assert(g_del[k].contentOk, "the sink observes type, text, file, line, function, category and originating thread id exactly as logged");
        if (P(3) && g_async) vf_assert(g_worker && g_del[k].tid == g_worker->m_tid, "all handler work happens on the logger thread");
        for (int j = 0; j < NMSG; ++j) if (j < k) {
            int a = g_del[j].id, b = id;
            bool sameProducer = a >= 0 && b >= 0 && a / VF_MSGS == b / VF_MSGS;
            if (sameProducer) vf_assert(a < b, "each thread's messages arrive in the order that thread logged them");
            // real-time order: b's call returned before a's call began  =>  b must not come after a
            if (P(3) && a >= 0 && b >= 0 && a < NMSG && b < NMSG) vf_assert(!(g_returned[b] < g_started[a]), "a call that returned before another began is delivered first");
        }
    }
    for (int i = 0; i < NMSG; ++i) vf_assert(seen[i] <= 1, "no message is delivered twice");
}

extern "C" void h_conc()
{
    static QCoreApplication *app = new QCoreApplication();
    g_logger = new Logger();
    auto probe = QSharedPointer<ProbeSink>::create();
#ifndef VF_NOSEQ
    g_logger->append(SeqNumberAttrPtr::create());
#endif
#ifdef VF_NESTED
    g_logger->pipeline().append(probe);
#else
    g_logger->append(probe);
#endif
    g_logger->installMessageHandler();
    g_async = false;
#if VF_PROP >= 3
    g_async = true;
    g_logger->moveToOwnThread();
    g_worker = g_logger->ownThread();
#endif
    qm_yield_hook = scheduler;
    for (int r = 0; r < VF_ROUNDS; ++r) { qm_cur_tid = 1; scheduler(QM_Y_USER); }
    bool allSent = true; for (int p = 0; p < VF_PROD; ++p) if (g_next[p] < VF_MSGS) allSent = false;
    vf_assume(allSent);                  // schedules in which every producer got to log all its messages
#if VF_PROP == 2
    check_deliveries(NMSG);
#elif VF_PROP == 3
    // never blocks on a sink / never runs a sink: a producer's call returns although the worker has not run
    // (checked inside producer_step: the probe sink asserts the worker thread id); now let the worker drain
    for (int k = 0; k < NMSG + 1; ++k) g_worker->step();
    check_deliveries(NMSG);
#else
    // C04: stop with a backlog, producers may still be logging while it happens (scheduler keeps running at the yields)
#ifdef VF_ONLY_PATH
    const int path = VF_ONLY_PATH;      // one stop path per job
#else
    int path = vf_range(0, VF_STOP_PATHS - 1);
#endif
    int accepted = 0; for (int p = 0; p < VF_PROD; ++p) accepted += g_next[p];
    if (path == 0) g_logger->resetOwnThread();
    else if (path == 1) app->emitAboutToQuit();
    else if (path == 2) { delete g_logger; g_logger = nullptr; }
    else { delete app; app = nullptr; delete g_logger; g_logger = nullptr; }         // Logger singleton destroyed after QCoreApplication
    vf_assert(g_ndel >= accepted, "stopping returns only after every message accepted before the stop has been delivered");
    vf_assert(g_worker->m_finished && !g_worker->m_terminated, "the logger thread has ended by itself (no terminate())");
    vf_assert(qm_events_discarded == 0, "no posted message is discarded");
    if (g_logger) {
        vf_assert(g_logger->ownThread() == nullptr && !g_logger->ownThreadIsRunning(), "asynchronous mode is off after the stop");
        // a message logged after the stop is delivered synchronously
        int before = g_ndel;
        QMessageLogContext ctx("Z", 1, "fz", "c");
        check_deliveries(g_ndel);
        g_logger->processMessage(QtInfoMsg, ctx, QStringLiteral("z"));
        vf_assert(g_ndel == before + 1, "messages logged after the stop are delivered synchronously, not dropped");
    } else check_deliveries(g_ndel);
#endif
    vf_witness();
}
