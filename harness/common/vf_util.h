// vf_util.h -- harness helpers usable in both builds (model Qt and real Qt): only public Qt API + vf.h
#pragma once
#include "vf.h"
// symbolic string of at most maxlen UTF-16 units drawn from [lo,hi]; always consumes maxlen+1 nondet values
static inline QString vf_string(int maxlen, bool allowNull, unsigned lo = 0x20, unsigned hi = 0x7e)
{
    int n = vf_range(allowNull ? -1 : 0, maxlen);
    QString s = QStringLiteral("");
    for (int i = 0; i < maxlen; ++i) {
        unsigned short c = vf_nondet_u16();
        if (i < n) {
            c = (unsigned short)vf_clamp(c, (int)lo, (int)hi);
            s.append(QChar(c));
        }
    }
    if (n < 0) return QString();
    return s;
}
// symbolic string over an explicit alphabet (menu of code units)
static inline QString vf_string_menu(int maxlen, const unsigned short *menu, int nmenu)
{
    int n = vf_range(0, maxlen);
    QString s = QStringLiteral("");
    for (int i = 0; i < maxlen; ++i) {
        int k = vf_range(0, nmenu - 1);
        if (i < n) s.append(QChar(menu[k]));
    }
    return s;
}
