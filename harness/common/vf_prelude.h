// vf_prelude.h -- first include of every harness TU.
// Symbolic build: the Qt model (qtmodel/) + real libstdc++.  Real build (-DVF_REAL): real Qt 5.
#pragma once
#include <optional>
#include <functional>
#include <algorithm>
#include <chrono>
#include <initializer_list>
#ifdef VF_REAL
#include <QtCore>
#include <iostream>
#else
#include "qm_all.h"
#endif
#include "vf.h"
#define private public
#define protected public
