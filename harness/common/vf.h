// vf.h -- verification primitives shared by the Qt model (qtmodel/) and by harnesses.
// In the symbolic build (clang -> LLVM IR -> ll2c -> CBMC) these externs are mapped by ll2c to
// __CPROVER_assume / __CPROVER_assert / nondet values.  In the replay / conformance builds
// (g++ against real Qt, or gcc on ll2c's C) they are provided by replay/vf_rt.cpp|c which feeds
// a recorded stream of values.
#pragma once
extern "C" {
void vf_assume(bool c);
void vf_assert(bool c, const char *msg);
int vf_nondet_int(void);
unsigned vf_nondet_uint(void);
unsigned short vf_nondet_u16(void);
unsigned char vf_nondet_u8(void);
bool vf_nondet_bool(void);
long long vf_nondet_i64(void);
void vf_witness(void);           // end-of-harness reachability witness (must be reachable)
void vf_note(const char *what, long long v);   // replay-side logging only; no-op symbolically
}
// nondet int in [lo,hi]
static inline int vf_range(int lo, int hi)
{
    int v = vf_nondet_int();
    vf_assume(v >= lo && v <= hi);
    return v;
}
