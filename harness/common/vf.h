// vf.h -- verification primitives shared by the Qt model (qtmodel/) and by harnesses.
// In the symbolic build (clang -> LLVM IR -> ll2c -> CBMC) these externs are mapped by ll2c to
// __CPROVER_assume / __CPROVER_assert / nondet values.  In the replay / conformance builds
// (g++ against real Qt, or gcc on ll2c's C) they are provided by replay/vf_rt.cpp|c which feeds
// a recorded stream of values.
#pragma once
extern "C" {
void vf_assume(bool c);
void vf_assert(bool c, const char *msg);
int vf_nondet_int(void);
unsigned vf_nondet_uint(void);
unsigned short vf_nondet_u16(void);
unsigned char vf_nondet_u8(void);
bool vf_nondet_bool(void);
long long vf_nondet_i64(void);
void vf_witness(void);           // end-of-harness reachability witness (must be reachable)
void vf_note(const char *what, long long v);   // replay-side logging only; no-op symbolically
}
#if defined(VF_REAL) && !defined(VF_CONCRETE)
#define VF_CONCRETE 1
#endif
// v constrained to [lo,hi]: an assumption in the symbolic build; in concrete builds (replay on the real library,
// conformance runs) out-of-range stream values are folded into the range (identity for in-range values)
static inline int vf_clamp(int v, int lo, int hi)
{
#ifdef VF_CONCRETE
    long long n = (long long)hi - lo + 1;
    long long r = ((long long)v - lo) % n;
    if (r < 0) r += n;
    return (int)(lo + r);
#else
    vf_assume(v >= lo && v <= hi);
    return v;
#endif
}
// nondet int in [lo,hi]
static inline int vf_range(int lo, int hi) { return vf_clamp(vf_nondet_int(), lo, hi); }
