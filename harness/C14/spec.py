# C14: memory-safety / termination jobs run with CBMC's full instrumentation (checks='full')
F = dict(checks='full')
UPC = {'cleanup': 40}
JOBS = [
    dict(F, name='cleanup_raw', src='c14.cpp', fn='h_cleanup_raw', defines={'QM_STR_CAP': 8, 'VF_N': 3}, defines_thorough={'VF_N': 4}, unwind=12, timeout=1200, timeout_thorough=3600, mem=12),
]
for k in range(8):
    JOBS.append(dict(F, name='cleanup_tpl%d' % k, src='c14.cpp', fn='h_cleanup_tpl', defines={'QM_STR_CAP': 24, 'VF_TPL': k}, unwind=28, timeout=1800, mem=12, tiers=['experimental']))      # no verdict within 25 min in this sandbox
JOBS += [
    dict(F, name='pattern_raw', src='c14.cpp', fn='h_pattern_raw', defines={'QM_STR_CAP': 8, 'QM_LIST_CAP': 6, 'QM_HASH_CAP': 6, 'VF_N': 2}, defines_thorough={'VF_N': 3}, unwind=12, timeout=1800, timeout_thorough=5400, mem=16, tiers=['experimental']),
    dict(name='alloc_width1', src='c14.cpp', fn='h_pattern_alloc', defines={'QM_STR_CAP': 26, 'QM_LIST_CAP': 4, 'QM_HASH_CAP': 6, 'VF_ND': 1, 'VF_SECOND': 0}, unwind=30, timeout=900),
    dict(name='alloc_width2e9', src='c14.cpp', fn='h_pattern_alloc', defines={'QM_STR_CAP': 26, 'QM_LIST_CAP': 4, 'QM_HASH_CAP': 6, 'VF_ND': 10, 'VF_D0': 2, 'VF_SECOND': 0}, unwind=30, timeout=900),
    dict(name='alloc_remove2e9', src='c14.cpp', fn='h_pattern_alloc', defines={'QM_STR_CAP': 26, 'QM_LIST_CAP': 4, 'QM_HASH_CAP': 6, 'VF_ND': 10, 'VF_D0': 2, 'VF_SECOND': 1}, unwind=30, timeout=900),
    dict(F, name='pretty', src='c14.cpp', fn='h_pretty', defines={'QM_STR_CAP': 20, 'QM_LIST_CAP': 4, 'QM_HASH_CAP': 4}, unwind=24, timeout=900),
    dict(F, name='catfilter_raw', src='c14.cpp', fn='h_catfilter_raw', defines={'QM_STR_CAP': 14, 'QM_LIST_CAP': 3, 'QM_HASH_CAP': 6, 'QM_RX_FLAT': 1, 'VF_N': 3}, unwind=18, unwind_patterns={'CategoryFilter10parseRules': 4, 'CategoryFilter6filter': 4}, timeout=1800, mem=16),
]
for k in range(7):
    JOBS.append(dict(F, name='pattern_menu%d' % k, src='c14.cpp', fn='h_pattern_menu', defines={'QM_STR_CAP': 40, 'QM_LIST_CAP': 8, 'QM_HASH_CAP': 6, 'VF_MENU': k}, unwind=44, timeout=2400, mem=16, tiers=['experimental']))
BOUNDS = {'quick': 'FunctionToken::cleanup: every byte string of length <=3; widths / removal counts of up to 10 decimal digits; PrettyFormatter from an arbitrary internal state, two messages; CategoryFilter: every rule text of <=6 ASCII characters x category <=3',
          'thorough': 'cleanup length <=4 (experimental tier, no verdict within 25 min here: 8 cleanup templates with symbolic holes, raw patterns of <=2..3 units, 7 placeholder skeletons)'}
OUTSIDE = 'inputs longer than the stated sizes (the property speaks of up to 64 KiB: bit-precise bounded checking of string loops does not reach that); JsonFormatter/SentryFormatter have no index arithmetic of their own (strlen on null guarded: C13/C18 harnesses pass null pointers); RegExpFilter matching is Qt/PCRE'
ASSUMPTIONS = ['every Qt precondition whose violation is undefined behaviour in release Qt is an assertion of the model (QString/QByteArray at(), QList first()/last()/erase, iterator validity)', 'allocation sizes requested through reserve()/QString(n, ch) are observed, not performed']

for _j in JOBS:
    _j.setdefault('mem_est', 6)
