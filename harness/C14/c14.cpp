// C14: no input can crash, corrupt memory or hang formatting and filtering.
// Units: FunctionToken::cleanup, parseFormatSpec, parsePattern + format (all tokens), ShortFileToken (patternformatter.cpp),
// PrettyFormatter::format (prettyformatter.cpp), CategoryFilter (categoryfilter.cpp).
// Obligations: every Qt precondition of the model (index ranges of at()/operator[], first()/last() on empty containers,
// iterator validity ...), CBMC's pointer / bounds / overflow checks, ll2c's signed-overflow assertions on repository
// arithmetic, the allocation-size observation, and ALL unwinding assertions (= termination within the stated loop bounds).
#include "vf_prelude.h"
#include "vf_util.h"
#include "formatters/patternformatter.cpp"
#include "formatters/prettyformatter.cpp"
#include "filters/categoryfilter.cpp"
using namespace QtLogger;

#ifndef VF_N
#define VF_N 3
#endif

// ---- FunctionToken::cleanup on arbitrary bytes
extern "C" void h_cleanup_raw()
{
    char buf[VF_N + 1];
    int n = vf_range(0, VF_N);
    for (int i = 0; i < VF_N; ++i) { buf[i] = (char)vf_nondet_u8(); if (i < n) vf_assume(buf[i] != 0); }
    buf[n] = 0;
    QByteArray out = FunctionToken::cleanup(QByteArray(buf));
    vf_assert(out.size() <= n, "cleanup never grows the text");
    vf_witness();
}

// ---- cleanup on templates: concrete anchors that reach the deep index arithmetic, symbolic holes
#ifndef VF_TPL
#define VF_TPL 0
#endif
static const char *const g_tpl[] = {
    "?operator?(?)",        // func.at(openParen - 9), operator detection
    "? (*?(?))(?)",         // function-pointer return type: mid(nameStart, ...)
    "?()::?<?>(?)",         // "()::" removal with template depth scan
    "?<lambda?>::?",        // lambda kept inside angle brackets
    "? ?::?(?) const",      // qualifiers + return type
    "?[with ? = ?]",        // compiler metadata
    "a<b()::c>(?)",         // (seeded-bug shape) "()::" inside an unmatched '<'
    "?operator ?<?>(?)",    // operator with templates
};
extern "C" void h_cleanup_tpl()
{
    const char *tpl = g_tpl[VF_TPL];
    char buf[24]; int n = 0;
    for (int i = 0; i < 23 && tpl[i]; ++i) {
        char c = tpl[i];
        if (c == '?') { c = (char)vf_nondet_u8(); vf_assume(c != 0); }
        buf[i] = c; n = i + 1;
    }
    buf[n] = 0;
    QByteArray out = FunctionToken::cleanup(QByteArray(buf));
    vf_assert(out.size() <= n, "cleanup never grows the text");
    vf_witness();
}

// ---- parsePattern + format on arbitrary pattern text, arbitrary message / category / file / function
extern "C" void h_pattern_raw()
{
    QString pat = vf_string(VF_N, false, 0x0001, 0xffff);
    char cat[3], file[4], func[4];
    for (int i = 0; i < 2; ++i) cat[i] = (char)vf_range(1, 255);
    for (int i = 0; i < 3; ++i) { file[i] = (char)vf_range(1, 127); func[i] = (char)vf_range(1, 127); }
    cat[vf_range(0, 2)] = 0; file[vf_range(0, 3)] = 0; func[vf_range(0, 3)] = 0;
    QMessageLogContext ctx(vf_nondet_bool() ? nullptr : file, vf_nondet_int(), vf_nondet_bool() ? nullptr : func, vf_nondet_bool() ? nullptr : cat);
    LogMessage msg((QtMsgType)vf_range(0, 4), ctx, vf_string(2, true, 0x0000, 0xffff));
    if (vf_nondet_bool()) msg.setAttribute(QStringLiteral("a"), vf_string(1, true, 0, 0xffff));
    PatternFormatter f(pat);
    QString out = f.format(msg);
    (void)out;
    vf_witness();
}

// ---- a menu of placeholder skeletons around symbolic text (reaches the token classes)
#ifndef VF_MENU
#define VF_MENU 0
#endif
static const char *const g_menu[] = {
    "%{func}|%{function}", "%{shortfile}|%{shortfile ?}", "%{?:??}", "%{a??,?}%{a??}", "%{if-?}x%{endif}%{?", "%{threadid}%{qthreadptr}%{line:?>3!}", "%{file:?<2!}%{category:^4}%%%",
};
extern "C" void h_pattern_menu()
{
    const char *tpl = g_menu[VF_MENU];
    QString pat = QStringLiteral("");
    for (int i = 0; i < 40 && tpl[i]; ++i) { ushort c = (uchar)tpl[i]; if (c == '?') { c = vf_nondet_u16(); vf_assume(c != 0); } pat.append(QChar(c)); }
    char cat[3], file[5], func[6];
    for (int i = 0; i < 2; ++i) cat[i] = (char)vf_range(1, 127);
    for (int i = 0; i < 4; ++i) file[i] = (char)vf_range(1, 127);
    for (int i = 0; i < 5; ++i) func[i] = (char)vf_range(1, 255);
    cat[vf_range(0, 2)] = 0; file[vf_range(0, 4)] = 0; func[vf_range(0, 5)] = 0;
    QMessageLogContext ctx(vf_nondet_bool() ? nullptr : file, vf_range(-5, 99999), vf_nondet_bool() ? nullptr : func, vf_nondet_bool() ? nullptr : cat);
    LogMessage msg((QtMsgType)vf_range(0, 4), ctx, vf_string(2, true, 0x0000, 0xffff));
    if (vf_nondet_bool()) msg.setAttribute(QStringLiteral("a"), vf_string(1, true, 0, 0xffff));
    PatternFormatter f(pat);
    QString out = f.format(msg);
    (void)out;
    vf_witness();
}

// ---- widths / removal counts taken from the pattern must not drive allocation sizes
extern "C" void h_pattern_alloc()
{
    // "%{message:>D99..9}" and "%{a?,D99..9}x": 1..10 decimal digits, leading digit symbolic
#ifndef VF_ND
#define VF_ND 10
#endif
#ifndef VF_SECOND
#define VF_SECOND 0
#endif
    const bool second = VF_SECOND;      // (a symbolic choice between two literals would make the pattern text symbolic)
    QString pat = second ? QStringLiteral("%{a?,") : QStringLiteral("%{message:>");
    // concrete digits (a symbolic character inside the pattern would fork the tokenizer at every decision): VF_ND digits,
    // the first one VF_D0, the rest '0'  -- e.g. 2000000000
#ifndef VF_D0
#define VF_D0 9
#endif
    const int nd = VF_ND;
    for (int i = 0; i < 10; ++i) if (i < nd) pat.append(QChar(ushort(i == 0 ? '0' + VF_D0 : '0')));
    pat.append(second ? QStringLiteral("}x") : QStringLiteral("}"));
    QMessageLogContext ctx("f", 1, "fn", "c");
    LogMessage msg(QtDebugMsg, ctx, QStringLiteral("m"));
    PatternFormatter f(pat);
    QString out = f.format(msg);      // the model asserts on every allocation request (qm_alloc_request)
    (void)out;
    vf_witness();
}

// ---- PrettyFormatter from an arbitrary internal state
extern "C" void h_pretty()
{
    PrettyFormatter f(vf_nondet_bool(), vf_nondet_int());
    f.m_threadsIndex = vf_nondet_int(); f.m_categoryWidth = vf_nondet_int();
    vf_assume(f.m_threadsIndex >= 0 && f.m_threadsIndex < 2000000000);      // reachable values: a counter of distinct threads seen
    vf_assume(f.m_categoryWidth >= 0 && f.m_categoryWidth <= 64);            // invariant: min(longest "[category] " seen, maxCategoryWidth)
    char cat[5];
    for (int i = 0; i < 4; ++i) cat[i] = (char)vf_range(1, 127);
    cat[vf_range(0, 4)] = 0;
    QMessageLogContext ctx("f", 1, "fn", cat);
    LogMessage msg((QtMsgType)vf_range(0, 4), ctx, vf_string(2, true, 0, 0xffff));
    QString out = f.format(msg);
    LogMessage msg2((QtMsgType)vf_range(0, 4), ctx, vf_string(1, true, 0, 0xffff));
    out = f.format(msg2);
    (void)out;
    vf_witness();
}

// ---- CategoryFilter: arbitrary rule text and category
extern "C" void h_catfilter_raw()
{
    QString rules = vf_string(VF_N + 3, true, 0x0001, 0x007f);
    char cat[4];
    for (int i = 0; i < 3; ++i) cat[i] = (char)vf_range(1, 127);
    cat[vf_range(0, 3)] = 0;
    CategoryFilter f(rules);
    QMessageLogContext ctx("f", 1, "fn", vf_nondet_bool() ? nullptr : cat);
    LogMessage msg((QtMsgType)vf_range(0, 4), ctx, QStringLiteral("m"));
    bool v = f.filter(msg);
    (void)v;
    vf_witness();
}
