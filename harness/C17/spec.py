UP = {'__find_if': 3, 'SortedPipeline5clear': 7, 'QMutableListIterator': 7}
JOBS = [
    dict(name='sorted_seq', src='c17.cpp', fn='h_sorted_seq', defines={'QM_STR_CAP': 4, 'QM_LIST_CAP': 5, 'QM_HASH_CAP': 2, 'VF_N': 3},
         defines_thorough={'VF_N': 5, 'QM_LIST_CAP': 6}, unwind=9, unwind_patterns=UP, timeout=900, timeout_thorough=3000, mem_thorough=30),
    dict(name='sorted_step', src='c17.cpp', fn='h_sorted_step', defines={'QM_STR_CAP': 4, 'QM_LIST_CAP': 6, 'QM_HASH_CAP': 2}, unwind=9, unwind_patterns=UP, timeout=900),
]
BOUNDS = {'quick': 'call sequences of length 3 over the 11 public calls (+null handlers) with 2 reusable handlers per class, from the empty pipeline; plus ONE call from every sorted list of <=4 handlers with <=1 formatter (inductive step: covers histories of any length that stay within 5 handlers)',
          'thorough': 'same with sequences of length 5'}
OUTSIDE = 'lists longer than 5 (quick) / 6 handlers; insertBetween* called directly with custom class sets'
ASSUMPTIONS = ['QList::insert(iterator) requires an iterator into the list (checked as a model precondition)', 'std::find_if is the libstdc++ implementation compiled from source', 'no reference counting in the QSharedPointer model']
