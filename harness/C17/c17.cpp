// C17: SortedPipeline keeps handler classes in order for any call sequence.
// Units: the real sortedpipeline.cpp + pipeline.cpp (libstdc++ std::find_if comes through the IR).
#include "vf_prelude.h"
#include "vf_util.h"
#include "pipeline.cpp"
#include "sortedpipeline.cpp"
using namespace QtLogger;

#ifndef VF_N
#define VF_N 4
#endif
#define POOL 2

struct MAttr : public AttrHandler { QVariantHash attributes(const LogMessage &) override { return QVariantHash(); } };
struct MFilt : public Filter { bool filter(const LogMessage &) override { return true; } };
struct MFmt : public Formatter { QString format(const LogMessage &) override { return QString(); } };
struct MSink : public Sink { void send(const LogMessage &) override { } };

// reference: list of (handler pointer, class rank) kept by stable insertion by rank
#define REFCAP 8
struct Ref {
    Handler *h[REFCAP]; int rank[REFCAP]; int n = 0;
    void insertStable(Handler *p, int r)
    {
        // position = after every element whose rank is <= r  (stable insertion by class rank)
        int pos = 0;
        for (int i = 0; i < REFCAP; ++i) if (i < n && rank[i] <= r) pos = i + 1;
        for (int i = REFCAP - 1; i > 0; --i) if (i <= n && i > pos) { h[i] = h[i - 1]; rank[i] = rank[i - 1]; }
        h[pos] = p; rank[pos] = r; ++n;
    }
    void removeRank(int r)
    {
        int k = 0;
        for (int i = 0; i < REFCAP; ++i) if (i < n && rank[i] != r) { h[k] = h[i]; rank[k] = rank[i]; ++k; }
        n = k;
    }
};

static void check_same(const SortedPipeline &p, const Ref &ref, const char *)
{
    const QList<HandlerPtr> &l = p.handlers();
    vf_assert(l.size() == ref.n, "sorted pipeline: handler count equals reference");
    bool same = l.size() == ref.n;
    for (int i = 0; i < 8; ++i) if (i < ref.n && i < l.size() && l.at(i).data() != ref.h[i]) same = false;
    vf_assert(same, "sorted pipeline: handler sequence equals stable insertion by class rank (attr, filter, <=1 formatter, sinks, pipelines)");
}

struct Pool {
    QSharedPointer<MAttr> a[POOL]; QSharedPointer<MFilt> f[POOL]; QSharedPointer<MFmt> m[POOL]; QSharedPointer<MSink> s[POOL]; PipelinePtr p[POOL];
    Pool() { for (int i = 0; i < POOL; ++i) { a[i] = QSharedPointer<MAttr>::create(); f[i] = QSharedPointer<MFilt>::create(); m[i] = QSharedPointer<MFmt>::create(); s[i] = QSharedPointer<MSink>::create(); p[i] = PipelinePtr::create(); } }
};

static void apply_op(SortedPipeline &sp, Ref &ref, Pool &pool, int op, int k)
{
    switch (op) {
    case 0: sp.appendAttrHandler(pool.a[k]); ref.insertStable(pool.a[k].data(), 0); break;
    case 1: sp.appendFilter(pool.f[k]); ref.insertStable(pool.f[k].data(), 1); break;
    case 2: sp.setFormatter(pool.m[k]); ref.removeRank(2); ref.insertStable(pool.m[k].data(), 2); break;
    case 3: sp.appendSink(pool.s[k]); ref.insertStable(pool.s[k].data(), 3); break;
    case 4: sp.appendPipeline(pool.p[k]); ref.insertStable(pool.p[k].data(), 4); break;
    case 5: sp.clearAttrHandlers(); ref.removeRank(0); break;
    case 6: sp.clearFilters(); ref.removeRank(1); break;
    case 7: sp.clearFormatters(); ref.removeRank(2); break;
    case 8: sp.clearSinks(); ref.removeRank(3); break;
    case 9: sp.clearPipelines(); ref.removeRank(4); break;
    case 10: sp.clear(); ref.n = 0; break;
    case 11: sp.appendAttrHandler(AttrHandlerPtr()); sp.appendFilter(FilterPtr()); sp.setFormatter(FormatterPtr()); break;   // null handlers are ignored
    }
}

// bounded history from the empty pipeline
extern "C" void h_sorted_seq()
{
    Pool pool;
    SortedPipeline sp;
    Ref ref;
    for (int i = 0; i < VF_N; ++i) {
        int op = vf_range(0, 11);
        int k = vf_range(0, POOL - 1);
        apply_op(sp, ref, pool, op, k);
        check_same(sp, ref, "after call");
    }
    vf_witness();
}

// inductive step: arbitrary sorted list (<= 4 handlers, <= 1 formatter), then one call
extern "C" void h_sorted_step()
{
    Pool pool;   // handlers that the call may add
    Pool pre0, pre1;   // distinct handlers for the pre-state (2 per class and slot pair)
    SortedPipeline sp;
    Ref ref;
    int n = vf_range(0, 4);
    int prevRank = 0; int nfmt = 0;
    for (int i = 0; i < 4; ++i) {
        int r = vf_range(0, 4);
        if (i < n) {
            vf_assume(r >= prevRank);
            prevRank = r;
            if (r == 2) { ++nfmt; vf_assume(nfmt <= 1); }
            Pool &pp = (i < 2) ? pre0 : pre1; int k = i & 1;
            HandlerPtr h;
            switch (r) { case 0: h = pp.a[k]; break; case 1: h = pp.f[k]; break; case 2: h = pp.m[k]; break; case 3: h = pp.s[k]; break; default: h = pp.p[k]; break; }
            sp.Pipeline::append(h);
            ref.h[ref.n] = h.data(); ref.rank[ref.n] = r; ++ref.n;
        }
    }
    int op = vf_range(0, 11);
    int k = vf_range(0, POOL - 1);
    apply_op(sp, ref, pool, op, k);
    check_same(sp, ref, "after one call from an arbitrary sorted state");
    vf_witness();
}
