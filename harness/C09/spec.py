import sys, os; sys.path.insert(0, os.path.join(os.path.dirname(os.path.abspath(__file__)), '..', 'FS'))
import importlib, fs_jobs; importlib.reload(fs_jobs)
from fs_jobs import step, bounds, OUTSIDE, ASSUMPTIONS
P = 9
JOBS = [
    step(P, 'daily_change',  2, 1, 1, 0, 1, 0),
    step(P, 'daily_same',    2, 1, 0, 0, 1, 0, tiers=('thorough',)),
    step(P, 'daily_m0',      0, 0, 1, 1, 1, 0),
    step(P, 'daily_gzleft',  4, 0, 1, 0, 1, 0, timeout=3000, mem=28),
    step(P, 'daily_gzmenu',  3, 1, 1, 0, 1, 0, tiers=('thorough',), timeout=3000, mem=28),
    step(P, 'daily_gz',      2, 1, 1, 0, 1, 1, tiers=('thorough',), timeout=3000, mem=28),
    step(P, 'daily_2writes', 2, 1, 2, 0, 1, 0, ops=2, tiers=('thorough',), timeout=5400, mem=40),
]
BOUNDS = {'quick': bounds('daily rotation: day change before the write / no day change (size rotation only) on the menu {10.1, 11.1}; day change + startup rotation on {10.1, 10.2}; day change next to compressed leftovers {10.1.gz, 10.2.gz} with compression off'),
          'thorough': bounds('plus a compressed older file with an index gap, compression, two writes (second one on a later day)')}
