import sys, os; sys.path.insert(0, os.path.join(os.path.dirname(os.path.abspath(__file__)), '..', 'FS'))
import importlib, fs_jobs; importlib.reload(fs_jobs)
from fs_jobs import step, bounds, OUTSIDE, ASSUMPTIONS
P = 9
# quick jobs: size rotation off (VF_LMAX=0), so that one send contains ONE rotation (a second rotation on the symbolic state left by
# the first multiplies symex time by ~5); the interplay of daily and size rotation is in the thorough tier
L0 = {'VF_LMAX': 0, 'VF_ACTIVE_FIXED': 1}
JOBS = [
    step(P, 'daily_change',  2, 1, 1, 0, 1, 0, extra=L0),
    step(P, 'daily_m0',      0, 0, 1, 1, 1, 0, extra=L0, tiers=('thorough',), timeout=3600, mem=28),      # startup + daily: two rotations in one send (about 25 min)
    step(P, 'daily_gzleft',  4, 0, 1, 0, 1, 0, extra=L0, timeout=3000, mem=28),
    step(P, 'daily_empty',   2, 1, 1, 0, 1, 0, extra={'VF_LMAX': 0, 'VF_ACTIVE_FIXED': 2}, tiers=('thorough',)),
    step(P, 'daily_same',    2, 1, 0, 0, 1, 0, tiers=('thorough',), timeout=3600),
    step(P, 'daily_size',    2, 1, 1, 0, 1, 0, tiers=('thorough',), timeout=5400, mem=32),
    step(P, 'daily_m0_size', 0, 0, 1, 1, 1, 0, tiers=('thorough',), timeout=5400, mem=32),
    step(P, 'daily_gzmenu',  3, 1, 1, 0, 1, 0, tiers=('thorough',), timeout=3000, mem=28),
    step(P, 'daily_gz',      2, 1, 1, 0, 1, 1, tiers=('thorough',), timeout=3000, mem=28),
    step(P, 'daily_2writes', 2, 1, 2, 0, 1, 0, ops=2, tiers=('thorough',), timeout=5400, mem=40),
]
BOUNDS = {'quick': bounds('(quick jobs: size rotation off and the active file holds exactly one one-character record, see VF_ACTIVE_FIXED in fs.cpp) daily rotation with a day change before the write on the menu {10.1, 11.1}; day change next to compressed leftovers {10.1.gz, 10.2.gz} with compression off'),
          'thorough': bounds('plus day change + startup rotation on {10.1, 10.2}, an empty active file, a compressed older file with an index gap, compression, two writes (second one on a later day)')}
