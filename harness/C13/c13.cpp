// C13: JSON output is complete and lossless; compact = one line.
// Units: the real formatters/jsonformatter.cpp + LogMessage::allAttributes (logmessage.h) over the abstract JSON model.
#include "vf_prelude.h"
#include "vf_util.h"
#include "formatters/jsonformatter.cpp"
using namespace QtLogger;
#ifndef VF_NATTR
#define VF_NATTR 3
#endif
static const char *ref_type_name(int t) { switch (t) { case QtDebugMsg: return "debug"; case QtInfoMsg: return "info"; case QtWarningMsg: return "warning"; case QtCriticalMsg: return "critical"; default: return "fatal"; } }

extern "C" void h_json()
{
    // message: arbitrary UTF-16 units incl. control characters, quotes, U+2028, surrogates
    QString text = vf_string(3, true, 0x0000, 0xffff);
    int type = vf_range(0, 4); int line = vf_range(0, 9999);
    char file[3], func[3], cat[3];
    bool nf = vf_nondet_bool(), nu = vf_nondet_bool(), nc = vf_nondet_bool();
    for (int i = 0; i < 2; ++i) { file[i] = (char)vf_range(0x20, 0x7e); func[i] = (char)vf_range(0x20, 0x7e); cat[i] = (char)vf_range(0x20, 0x7e); }
    int lf = vf_range(0, 2), lu = vf_range(0, 2), lc = vf_range(0, 2);
    file[lf] = 0; func[lu] = 0; cat[lc] = 0;
    QMessageLogContext ctx(nf ? nullptr : file, line, nu ? nullptr : func, nc ? nullptr : cat);
    LogMessage msg((QtMsgType)type, ctx, text);
    // custom attributes: names that do not shadow a built-in field; string / int / bool values
    static const char *const names[] = { "u", "v", "seq", "Type", "message2" };
    int kind[VF_NATTR]; int nm[VF_NATTR]; bool on[VF_NATTR]; QString sv[VF_NATTR]; int iv[VF_NATTR];
    for (int k = 0; k < VF_NATTR; ++k) {
        on[k] = vf_nondet_bool(); nm[k] = vf_range(0, 4); kind[k] = vf_range(0, 2);
        sv[k] = vf_string(2, false, 0x0000, 0xffff); iv[k] = vf_nondet_int();
        for (int j = 0; j < k; ++j) if (on[j] && on[k]) vf_assume(nm[j] != nm[k]);       // distinct names
        if (on[k]) {
            QString name = QString::fromLatin1(names[nm[k]]);
            if (kind[k] == 0) msg.setAttribute(name, sv[k]); else if (kind[k] == 1) msg.setAttribute(name, iv[k]); else msg.setAttribute(name, (iv[k] & 1) != 0);
        }
    }
    bool compact = vf_nondet_bool();
    JsonFormatter f(compact);
    QString out = f.format(msg);
    if (compact) vf_assert(!out.contains(QChar('\n')), "compact output contains no line break");
    QJsonDocument doc = QJsonDocument::fromJson(out.toUtf8());
    vf_assert(doc.isObject(), "output is one JSON object");
    QJsonObject o = doc.object();
    int ncustom = 0; for (int k = 0; k < VF_NATTR; ++k) if (on[k]) ++ncustom;
    vf_assert(o.size() == 8 + ncustom, "object has exactly the 8 built-in fields plus every custom attribute");
    vf_assert(o.value(QStringLiteral("type")).toString() == QString::fromLatin1(ref_type_name(type)), "type recovered");
    vf_assert(o.value(QStringLiteral("line")).toInt() == line && o.value(QStringLiteral("line")).isDouble(), "line recovered");
    vf_assert(o.value(QStringLiteral("file")).isString() && o.value(QStringLiteral("file")).toString() == QString::fromUtf8(nf ? "" : file), "file recovered (null pointer = empty)");
    vf_assert(o.value(QStringLiteral("function")).isString() && o.value(QStringLiteral("function")).toString() == QString::fromUtf8(nu ? "" : func), "function recovered");
    vf_assert(o.value(QStringLiteral("category")).isString() && o.value(QStringLiteral("category")).toString() == QString::fromUtf8(nc ? "" : cat), "category recovered");
    vf_assert(o.value(QStringLiteral("message")).isString() && o.value(QStringLiteral("message")).toString() == text, "message text recovered exactly");
    vf_assert(o.contains(QStringLiteral("time")) && o.value(QStringLiteral("time")).isString(), "time present");
    vf_assert(o.contains(QStringLiteral("threadId")) && o.value(QStringLiteral("threadId")).isDouble(), "threadId present");
    for (int k = 0; k < VF_NATTR; ++k) if (on[k]) {
        QJsonValue v = o.value(QString::fromLatin1(names[nm[k]]));
        if (kind[k] == 0) vf_assert(v.isString() && v.toString() == sv[k], "string attribute recovered exactly");
        else if (kind[k] == 1) vf_assert(v.isDouble() && v.toVariant().toLongLong() == (long long)iv[k], "numeric attribute recovered exactly");
        else vf_assert(v.isBool() && v.toBool() == ((iv[k] & 1) != 0), "bool attribute recovered exactly");
    }
    vf_witness();
}
