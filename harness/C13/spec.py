JOBS = [
    dict(name='json', src='c13.cpp', fn='h_json', defines={'QM_STR_CAP': 10, 'QM_LIST_CAP': 9, 'QM_HASH_CAP': 11, 'QM_JSON_CAP': 11, 'VF_NATTR': 2}, defines_thorough={'VF_NATTR': 3}, unwind=14, timeout=900),
    dict(name='json_attrs3', src='c13.cpp', fn='h_json', defines={'QM_STR_CAP': 10, 'QM_LIST_CAP': 9, 'QM_HASH_CAP': 11, 'QM_JSON_CAP': 11, 'VF_NATTR': 3}, unwind=14, timeout=1500, tiers=['thorough']),
]
BOUNDS = {'quick': 'every message text of <=3 arbitrary UTF-16 units (null included), all 5 types, line 0..9999, file/function/category of <=2 printable ASCII characters or null pointers, <=2 custom attributes (string of <=2 arbitrary units / any int / bool) under 5 non-shadowing names, compact on/off', 'thorough': '<=3 custom attributes'}
OUTSIDE = 'the JSON TEXT (syntax validity, escaping, number rendering, absence of raw line breaks inside strings) is produced by Qt (QJsonDocument::toJson), which is binary-only here: assumed by contract, not decided. List/map attribute values; longer texts.'
ASSUMPTIONS = ['QJsonDocument::toJson emits valid JSON that parses back to an equal object; Compact output has no line break (Qt contract)', 'QJsonValue::fromVariant conversions as observed on Qt 5.15.8 (null QString -> "", QDateTime -> ISO string, integers -> number)']

for _j in JOBS:
    _j.setdefault('mem_est', 4)
