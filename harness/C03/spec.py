# shared concurrency harness: harness/CONC/conc.cpp (VF_PROP selects the property)
D = {'QM_STR_CAP': 10, 'QM_LIST_CAP': 4, 'QM_HASH_CAP': 2, 'QM_EVQ_CAP': 4, 'VF_PROP': 3}
REC = {'_ZL9scheduleri': 6, '_ZL13producer_stepi': 6}
UP = {'resetOwnThread': 6, 'h_conc': 8, 'check_deliveries': 8, 'scheduler': 4}
JOBS = [
    dict(name='async_1x2', src='../CONC/conc.cpp', fn='h_conc', defines=dict(D, VF_PROD=1, VF_MSGS=2, VF_ROUNDS=2, VF_DEPTH=1), unwind=14, unwindset=REC, unwind_patterns=UP, timeout=2400, mem=24, replay='model'),
    dict(name='async', src='../CONC/conc.cpp', fn='h_conc', tiers=['thorough'], defines=dict(D, VF_PROD=2, VF_MSGS=1, VF_ROUNDS=2, VF_DEPTH=2), unwind=14, unwindset=REC, unwind_patterns=UP, timeout=1800, mem=24, replay='model', checks='full'),
    dict(name='async_2x2', src='../CONC/conc.cpp', fn='h_conc', defines=dict(D, VF_PROD=2, VF_MSGS=2, VF_ROUNDS=3, VF_DEPTH=2, QM_EVQ_CAP=5), unwind=14, unwindset=REC, unwind_patterns=UP, timeout=6000, mem=40, replay='model', checks='full', tiers=['thorough']),
]
BOUNDS = {'quick': '2 producers x 1 message with the logger moved to its own thread; caller buffers (file, function) freed right after each call; worker event-loop steps interleaved at every yield point (depth 2, 2 rounds), then drained', 'thorough': '2 producers x 2 messages x 3 rounds'}
OUTSIDE = 'schedules that are not well nested (two threads suspended inside each other alternately), more threads / messages / rounds, weak memory (sequential consistency assumed), wall-clock bounds (termination = no reachable state in which the stopper spins with no progress possible under fair sleeping)'
ASSUMPTIONS = ['nested-preemption sequentialisation (qtmodel/qm_thread_full.h): a step that would block on a mutex is pruned; equivalent later start is explored instead', 'posted events are FIFO; a finished event loop and a missing QCoreApplication discard queued events (Qt behaviour)', 'counterexamples are replayed natively on the real code over the Qt model, not on OS threads']
