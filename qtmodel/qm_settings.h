// qm_settings.h -- QSettings as a small key/value table controlled by the harness
#pragma once
#include "qm_core.h"
inline QVariantHash qm_settings_table;
class QSettings
{
public:
    enum Format { NativeFormat = 0, IniFormat = 1 };
    enum Scope { UserScope = 0, SystemScope = 1 };
    QSettings() { }
    QSettings(const QString &, Format) { }
    QSettings(Scope, const QString &, const QString & = QString()) { }
    QVariant value(const QString &key, const QVariant &def = QVariant()) const { return qm_settings_table.contains(key) ? qm_settings_table.value(key) : def; }
    void setValue(const QString &key, const QVariant &v) { qm_settings_table.insert(key, v); }
    bool contains(const QString &key) const { return qm_settings_table.contains(key); }
};
