// qm_thread.h -- threads, mutexes, atomics, QObject/QCoreApplication/event queue (model).
#pragma once
#include "qm_core.h"
namespace Qt { typedef void *HANDLE; }
inline quintptr qm_current_thread = 0x1000;   // id of the running model thread (set by the scheduler / harness)
class QObject;
class QThread;
inline QThread *qm_current_qthread = nullptr;
#include "qm_thread_full.h"
