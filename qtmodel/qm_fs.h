// qm_fs.h -- in-memory model of QIODevice / QFile / QFileInfo / QDir and qCompress for the file sinks.
//
// One directory (QM_FS_DIR) with QM_FS_SLOTS files.  Every file has its bytes, a DURABLE length (bytes that have left the
// process: flushed or closed) and a modification time taken from the harness-controlled clock.  A QFile writes through a
// user-space buffer that is flushed when it exceeds qm_fs_bufsize bytes, on flush()/close()/size() -- so "written but not
// yet durable" is representable (C10, C11).  Every state-changing call is a numbered operation:
//   qm_fs_crash_at : from that operation on nothing changes any more (the process is dead; the code keeps running in the
//                    model but has no effect) -- what a later reader finds is the durable state;
//   qm_fs_fail_at  : that one rename / remove / open fails (returns false) without effect.
// rename never overwrites (Qt: QFile::rename refuses an existing target); open(WriteOnly) without Append truncates;
// open(Append) creates; QFileInfo::lastModified is the time of the last durable write; rename keeps the time.
#pragma once
#include "qm_core.h"
#include "qm_thread.h"

#ifndef QM_FS_SLOTS
#define QM_FS_SLOTS 6
#endif
#ifndef QM_FS_FCAP
#define QM_FS_FCAP 32
#endif
#define QM_FS_DIR "/d"

struct QmFile {
    bool exists;
    QString name;               // file name without directory
    int len;                    // bytes written by the application (buffered + durable)
    int durable;                // bytes that are on "disk"
    unsigned char bytes[QM_FS_FCAP];
    int mday, mms, mseq;        // modification time (day, ms) + sequence of the durable write (tie-breaker is NOT visible to the code)
};
inline QmFile qm_fs[QM_FS_SLOTS];
inline int qm_fs_ops = 0;               // operation counter
inline int qm_fs_crash_at = 1 << 30;    // first operation that no longer happens
inline int qm_fs_fail_at = -1;          // operation that fails
inline int qm_fs_bufsize = 1 << 20;     // write-buffer threshold
inline int qm_fs_seq = 0;
// event log for the oracles (rotation order is known independently of names and times)
inline int qm_fs_nrenames = 0; inline int qm_fs_nremoves = 0;
inline QString qm_fs_removed[QM_FS_SLOTS]; inline QString qm_fs_renamed_to[QM_FS_SLOTS];

static inline bool qm_fs_dead() { return qm_fs_ops >= qm_fs_crash_at; }
static inline bool qm_fs_step(bool canFail) { bool fail = canFail && qm_fs_ops == qm_fs_fail_at; ++qm_fs_ops; return fail; }
static inline QString qm_fs_basename(const QString &path)
{
    int slash = path.lastIndexOf(QChar('/'));
    return slash < 0 ? path : path.mid(slash + 1);
}
static inline int qm_fs_find(const QString &name)
{
    int r = -1;
    for (int i = 0; i < QM_FS_SLOTS; ++i) if (r < 0 && qm_fs[i].exists && qm_fs[i].name == name) r = i;
    return r;
}
static inline int qm_fs_create(const QString &name)
{
    int r = -1;
    for (int i = 0; i < QM_FS_SLOTS; ++i) if (r < 0 && !qm_fs[i].exists) r = i;
    QM_LIMIT(r >= 0);
    for (int i = 0; i < QM_FS_SLOTS; ++i) if (i == r) { qm_fs[i].exists = true; qm_fs[i].name = name; qm_fs[i].len = 0; qm_fs[i].durable = 0; qm_fs[i].mday = qm_clock_day; qm_fs[i].mms = qm_clock_ms; qm_fs[i].mseq = ++qm_fs_seq; }
    return r;
}
static inline void qm_fs_sync(int slot)
{
    // buffered bytes become durable; the modification time is that of the write
    for (int i = 0; i < QM_FS_SLOTS; ++i) if (i == slot && qm_fs[i].durable < qm_fs[i].len) {
        if (!qm_fs_dead()) { qm_fs[i].durable = qm_fs[i].len; qm_fs[i].mday = qm_clock_day; qm_fs[i].mms = qm_clock_ms; qm_fs[i].mseq = ++qm_fs_seq; }
        ++qm_fs_ops;
    }
}

class QIODevice : public QObject
{
public:
    enum OpenModeFlag { NotOpen = 0, ReadOnly = 1, WriteOnly = 2, ReadWrite = 3, Append = 4, Truncate = 8, Text = 16, Unbuffered = 32 };
    typedef QFlags<OpenModeFlag> OpenMode;
    int m_mode = 0;
    virtual ~QIODevice() { }
    bool isOpen() const { return m_mode != 0; }
    virtual qint64 writeData(const char *data, qint64 len) = 0;
    virtual bool open(OpenMode mode) { m_mode = int(mode); return true; }
    virtual void close() { m_mode = 0; }
    qint64 write(const char *data, qint64 len) { if (!(m_mode & WriteOnly)) return -1; return writeData(data, len); }
    qint64 write(const QByteArray &a) { return write(a.constData(), a.size()); }
    qint64 write(const char *data) { return write(data, qm_strlen(data)); }
    bool putChar(char c) { return write(&c, 1) == 1; }
    QString errorString() const { return QString::fromLatin1("error"); }
};
constexpr inline QIODevice::OpenMode operator|(QIODevice::OpenModeFlag a, QIODevice::OpenModeFlag b) { return QIODevice::OpenMode(int(a) | int(b), true); }

class QFileDevice : public QIODevice { };

class QFile : public QFileDevice
{
public:
    QString m_path;
    int m_slot = -1;
    int m_pos = 0;
    QFile() { }
    QFile(const QString &path) : m_path(path) { }
    QFile(const QFile &o) : m_path(o.m_path), m_slot(o.m_slot), m_pos(o.m_pos) { m_mode = o.m_mode; }    // only for `auto f = QFile(path);` (guaranteed elision in the real build)
    ~QFile() override { close(); }
    QString fileName() const { return m_path; }
    void setFileName(const QString &p) { m_path = p; }
    bool exists() const { return qm_fs_find(qm_fs_basename(m_path)) >= 0; }
    static bool exists(const QString &p) { return qm_fs_find(qm_fs_basename(p)) >= 0; }
    bool open(OpenMode mode) override
    {
        QString name = qm_fs_basename(m_path);
        int s = qm_fs_find(name);
        int md = int(mode);
        if (md & WriteOnly) {
            if (qm_fs_step(true)) return false;
            if (s < 0) { if (qm_fs_dead()) return false; s = qm_fs_create(name); }
            else if (!(md & Append) && !(md & ReadOnly)) { if (!qm_fs_dead()) for (int i = 0; i < QM_FS_SLOTS; ++i) if (i == s) { qm_fs[i].len = 0; qm_fs[i].durable = 0; qm_fs[i].mday = qm_clock_day; qm_fs[i].mms = qm_clock_ms; qm_fs[i].mseq = ++qm_fs_seq; } }
        } else {
            if (s < 0) return false;
        }
        m_slot = s; m_mode = md; m_pos = 0;
        return true;
    }
    void close() override { if (m_mode != 0 && m_slot >= 0 && (m_mode & WriteOnly)) qm_fs_sync(m_slot); m_mode = 0; }
    bool flush() { if (m_mode != 0 && m_slot >= 0) qm_fs_sync(m_slot); return true; }
    qint64 size() const
    {
        // QFileDevice::size() flushes the write buffer first
        int s = m_mode != 0 ? m_slot : qm_fs_find(qm_fs_basename(m_path));
        if (s < 0) return 0;
        if (m_mode & WriteOnly) qm_fs_sync(s);
        qint64 r = 0;
        for (int i = 0; i < QM_FS_SLOTS; ++i) if (i == s) r = qm_fs[i].len;
        return r;
    }
    qint64 writeData(const char *data, qint64 len) override
    {
        if (m_slot < 0) return -1;
        for (int i = 0; i < QM_FS_SLOTS; ++i) if (i == m_slot) {
            QmFile &f = qm_fs[i];
            // buffered write: the bytes are part of the file as the application sees it; durability follows below
            QM_LIMIT(f.len + len <= QM_FS_FCAP);
            for (int k = 0; k < QM_FS_FCAP; ++k) if (k < len) f.bytes[(f.len + k) < QM_FS_FCAP ? f.len + k : 0] = (unsigned char)data[k];
            f.len += int(len);
        }
        int pending = 0;
        for (int i = 0; i < QM_FS_SLOTS; ++i) if (i == m_slot) pending = qm_fs[i].len - qm_fs[i].durable;
        if (pending > qm_fs_bufsize) qm_fs_sync(m_slot);
        return len;
    }
    bool seek(qint64 p) { m_pos = int(p); return true; }
    bool atEnd() const { int l = 0; for (int i = 0; i < QM_FS_SLOTS; ++i) if (i == m_slot) l = qm_fs[i].len; return m_pos >= l; }
    qint64 read(char *buf, qint64 maxlen)
    {
        int l = 0; for (int i = 0; i < QM_FS_SLOTS; ++i) if (i == m_slot) l = qm_fs[i].len;
        int n = l - m_pos; if (n > maxlen) n = int(maxlen); if (n < 0) n = 0;
        int w = 0;
        for (int k = 0; k < QM_FS_FCAP; ++k) if (k < n) for (int i = 0; i < QM_FS_SLOTS; ++i) if (i == m_slot) {
            char c = char(qm_fs[i].bytes[(m_pos + k) < QM_FS_FCAP ? m_pos + k : 0]);
            if (!((m_mode & Text) && c == '\r')) buf[w++] = c;          // QIODevice::Text: carriage returns are removed when reading
        }
        m_pos += n;
        return w;
    }
    QByteArray readAll()
    {
        QByteArray r; r.m_null = false;
        int l = 0; for (int i = 0; i < QM_FS_SLOTS; ++i) if (i == m_slot) l = qm_fs[i].len;
        int n = l - m_pos; if (n < 0) n = 0;
        QM_LIMIT(n <= QM_STR_CAP);
        int w = 0;
        for (int k = 0; k < QM_FS_FCAP && k < QM_STR_CAP; ++k) if (k < n) for (int i = 0; i < QM_FS_SLOTS; ++i) if (i == m_slot) {
            char c = char(qm_fs[i].bytes[(m_pos + k) < QM_FS_FCAP ? m_pos + k : 0]);
            if (!((m_mode & Text) && c == '\r')) r.m_d[w++] = c;
        }
        r.m_len = w; m_pos += n;
        return r;
    }
    static bool rename(const QString &from, const QString &to)
    {
        if (qm_fs_step(true)) return false;
        QString f = qm_fs_basename(from), t = qm_fs_basename(to);
        int s = qm_fs_find(f);
        if (s < 0 || qm_fs_find(t) >= 0) return false;
        if (qm_fs_dead()) return false;
        for (int i = 0; i < QM_FS_SLOTS; ++i) if (i == s) qm_fs[i].name = t;
        for (int i = 0; i < QM_FS_SLOTS; ++i) if (i == qm_fs_nrenames) qm_fs_renamed_to[i] = t;
        ++qm_fs_nrenames;
        return true;
    }
    static bool remove(const QString &path)
    {
        if (qm_fs_step(true)) return false;
        QString f = qm_fs_basename(path);
        int s = qm_fs_find(f);
        if (s < 0) return false;
        if (qm_fs_dead()) return false;
        for (int i = 0; i < QM_FS_SLOTS; ++i) if (i == s) qm_fs[i].exists = false;
        for (int i = 0; i < QM_FS_SLOTS; ++i) if (i == qm_fs_nremoves) qm_fs_removed[i] = f;
        ++qm_fs_nremoves;
        return true;
    }
    bool remove() { return remove(m_path); }
};

class QFileInfo
{
public:
    QString m_path;
    QFileInfo() { }
    QFileInfo(const QString &p) : m_path(p) { }
    bool exists() const { return qm_fs_find(qm_fs_basename(m_path)) >= 0; }
    qint64 size() const { int s = qm_fs_find(qm_fs_basename(m_path)); qint64 r = 0; for (int i = 0; i < QM_FS_SLOTS; ++i) if (i == s) r = qm_fs[i].durable; return r; }
    QDateTime lastModified() const { int s = qm_fs_find(qm_fs_basename(m_path)); QDateTime r; for (int i = 0; i < QM_FS_SLOTS; ++i) if (i == s) r = QDateTime(qm_fs[i].mday, qm_fs[i].mms); return r; }
    QString fileName() const { return qm_fs_basename(m_path); }
    QString absolutePath() const { int slash = m_path.lastIndexOf(QChar('/')); return slash <= 0 ? QString::fromLatin1(QM_FS_DIR) : m_path.left(slash); }
    QString absoluteFilePath() const { return m_path; }
    QString completeBaseName() const { QString n = qm_fs_basename(m_path); int dot = n.lastIndexOf(QChar('.')); return dot < 0 ? n : n.left(dot); }
    QString suffix() const { QString n = qm_fs_basename(m_path); int dot = n.lastIndexOf(QChar('.')); return dot < 0 ? QString::fromLatin1("") : n.mid(dot + 1); }
};

class QDir
{
public:
    enum Filter { Files = 2, NoFilter = -1 };
    enum SortFlag { Name = 0, Time = 1, NoSort = -1 };
    QString m_path;
    QDir(const QString &p = QString()) : m_path(p) { }
    QString filePath(const QString &name) const { return m_path + QChar('/') + name; }
    QString absolutePath() const { return m_path; }
    bool exists() const { return true; }
    // name filters: QDir wildcards '*' and '?' (classes [...] are outside the model); a name is listed if it matches any filter
    static bool qm_glob(const QString &pat, const QString &name)
    {
        // reach[j]: the first i characters of the pattern can match the first j characters of the name
        bool reach[QM_STR_CAP + 1];
        for (int j = 0; j <= QM_STR_CAP; ++j) reach[j] = j == 0;
        for (int i = 0; i < QM_STR_CAP; ++i) if (i < pat.m_len) {
            const ushort c = pat.m_d[i];
            QM_LIMIT(c != '[');
            bool next[QM_STR_CAP + 1];
            if (c == '*') { bool any = false; for (int j = 0; j <= QM_STR_CAP; ++j) { any = any || reach[j]; next[j] = any && j <= name.m_len; } }
            else { next[0] = false; for (int j = 1; j <= QM_STR_CAP; ++j) next[j] = reach[j - 1] && j <= name.m_len && (c == '?' || name.m_d[j - 1] == c); }
            for (int j = 0; j <= QM_STR_CAP; ++j) reach[j] = next[j];
        }
        bool r = false;
        for (int j = 0; j <= QM_STR_CAP; ++j) if (j == name.m_len) r = reach[j];
        return r;
    }
    QStringList entryList(const QStringList &nameFilters, int filters = NoFilter, int sort = NoSort) const
    {
        QStringList all = entryList(filters, sort), l;
        for (int i = 0; i < all.size(); ++i) {
            bool hit = false;
            for (int f = 0; f < nameFilters.size(); ++f) if (qm_glob(nameFilters.at(f), all.at(i))) hit = true;
            if (hit) l.append(all.at(i));
        }
        return l;
    }
    QStringList entryList(int filters = NoFilter, int sort = NoSort) const
    {
        // plain files of the directory, sorted by name (QDir's default sort and QDir::Name agree for these ASCII names).
        // rank[i] = number of existing files that sort before file i; names are unique, so ranks are a permutation.
        // (S^2/2 string comparisons; a selection sort needs S^3 and dominated symex time)
        (void)filters; (void)sort;
        QStringList l;
        int rank[QM_FS_SLOTS];
        for (int i = 0; i < QM_FS_SLOTS; ++i) rank[i] = 0;
        for (int i = 0; i < QM_FS_SLOTS; ++i) for (int j = i + 1; j < QM_FS_SLOTS; ++j) {
            const bool both = qm_fs[i].exists && qm_fs[j].exists;
            const bool lt = qm_fs[i].name < qm_fs[j].name;
            if (both) { if (lt) ++rank[j]; else ++rank[i]; }
        }
        for (int r = 0; r < QM_FS_SLOTS; ++r)
            for (int i = 0; i < QM_FS_SLOTS; ++i) if (qm_fs[i].exists && rank[i] == r) l.append(qm_fs[i].name);
        return l;
    }
};

// qCompress contract stub: 4-byte big-endian length, zlib header 78 5E, "deflate data", 4-byte Adler-32.
// The deflate data is modelled as the marker byte 0x01 followed by the raw bytes (what inflate would give back):
// the repository's gzip framing copies it verbatim, so an independent "gunzip" in the oracle can read the payload.
inline QByteArray qCompress(const QByteArray &data, int level = -1)
{
    (void)level;
    QByteArray r; r.m_null = false;
    const int n = data.m_len;
    QM_LIMIT(n + 11 <= QM_STR_CAP);
    r.m_d[0] = 0; r.m_d[1] = 0; r.m_d[2] = 0; r.m_d[3] = char(n);
    r.m_d[4] = 0x78; r.m_d[5] = 0x5e;
    r.m_d[6] = 0x01;
    for (int i = 0; i < QM_STR_CAP; ++i) if (i < n) r.m_d[7 + i] = data.m_d[i];
    // Adler-32 of the data: its value is irrelevant to the framing code (the last four bytes are dropped); placeholder bytes
    r.m_d[7 + n] = char(0xAD); r.m_d[8 + n] = char(0x1E); r.m_d[9 + n] = char(0x32); r.m_d[10 + n] = char(0x00);
    r.m_len = n + 11;
    return r;
}
template<typename T> inline T qobject_cast_dev(QIODevice *d) { return dynamic_cast<T>(d); }
