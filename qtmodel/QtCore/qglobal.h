#pragma once
#include "../qm_all.h"
