#pragma once
#include <cstring>
#include "qm_core.h"
#include "qm_thread.h"
#include "qm_regex.h"
#include "qm_json.h"
#include "qm_fs.h"
#include "qm_settings.h"
