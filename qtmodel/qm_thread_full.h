#pragma once
// placeholder: extended below once the concurrency model exists
class QObject
{
public:
    QObject(QObject * = nullptr) { }
    virtual ~QObject() { }
};
class QThread : public QObject
{
public:
    static Qt::HANDLE currentThreadId() { return reinterpret_cast<Qt::HANDLE>(qm_current_thread); }
};
template<typename T> inline T qobject_cast(QObject *o) { return dynamic_cast<T>(o); }
