// qm_thread_full.h -- QObject / QEvent / QCoreApplication / QThread / mutexes / atomics for the concurrency harnesses.
//
// Scheduling model ("nested preemption"): the model is sequential C.  Every synchronisation primitive is a YIELD POINT that
// calls the harness scheduler (qm_yield_hook), which may run pending steps of OTHER model threads to completion, nested
// inside the current one (they yield again, recursively, up to a depth bound): thread A can be preempted inside its
// critical section by a complete log call of B, by worker event-loop steps, etc.  A nested step that would have to BLOCK
// on a mutex held by a suspended outer thread is pruned by assumption at the lock: it has produced no shared effect yet
// (in the code under test a lock acquisition is the first shared action of every entry point), so the schedule in which
// it starts later is equivalent and is covered by another choice.  Not covered: interleavings that need two threads to
// be suspended inside each other's steps alternately (non-nested), weak memory, real time.
#pragma once
#include <functional>

inline int qm_cur_tid = 1;                       // running model thread (1 = main thread)
inline void (*qm_yield_hook)(int) = nullptr;     // harness scheduler
enum { QM_Y_LOCK = 1, QM_Y_UNLOCK = 2, QM_Y_SLEEP = 3, QM_Y_WAIT = 4, QM_Y_POST = 5, QM_Y_ATOMIC = 6, QM_Y_USER = 7 };
static inline void qm_yield(int point) { if (qm_yield_hook) qm_yield_hook(point); }

class QThread; class QEvent; class QCoreApplication;
inline QThread *qm_main_qthread = nullptr;

class QObject
{
public:
    QThread *m_affinity;
    bool m_deleted;
    QObject(QObject * = nullptr) : m_affinity(nullptr), m_deleted(false) { }
    virtual ~QObject() { m_deleted = true; }
    virtual void customEvent(QEvent *) { }
    virtual bool event(QEvent *) { return false; }
    QThread *thread() const { return m_affinity; }
    inline void moveToThread(QThread *t);
    void deleteLater() { m_deleted = true; }       // the object is not freed in the model; QPointer sees it as gone
    template<typename... A> static bool connect(const QObject *, const char *, const QObject *, const char *, A...) { return true; }   // string-based: not modelled
    // typed connections used by OwnThreadHandler (defined after QThread / QCoreApplication)
    template<typename F> static inline bool connect(QCoreApplication *sender, void (QCoreApplication::*)(), QObject *context, F f);
    template<typename F> static inline bool connect(QThread *sender, void (QThread::*)(), F f);
    static inline bool connect(QThread *sender, void (QThread::*)(), QThread *receiver, void (QObject::*slot)());
};
template<typename T> inline T qobject_cast(QObject *o) { return dynamic_cast<T>(o); }
template<typename T> inline T qobject_cast(const QObject *o) { return dynamic_cast<T>(o); }

class QEvent
{
public:
    enum Type { None = 0, User = 1000, MaxUser = 65535 };
    int m_type;
    explicit QEvent(Type t) : m_type(int(t)) { }
    virtual ~QEvent() { }
    Type type() const { return Type(m_type); }
    static int registerEventType(int hint = -1) { (void)hint; static int next = 1000; return next++; }
};

template<typename T> class QPointer
{
public:
    T *m_p;
    QPointer() : m_p(nullptr) { }
    QPointer(T *p) : m_p(p) { }
    QPointer &operator=(T *p) { m_p = p; return *this; }
    T *data() const { return (m_p && !static_cast<QObject *>(m_p)->m_deleted) ? m_p : nullptr; }
    T *operator->() const { T *p = data(); QM_ASSERT(p != nullptr, "QPointer::operator-> on a null / destroyed object"); return p; }
    operator T *() const { return data(); }
    bool isNull() const { return data() == nullptr; }
    void clear() { m_p = nullptr; }
};

// ---------------------------------------------------------------- mutexes
class QBasicMutexModel
{
public:
    int m_owner; int m_depth; bool m_recursive;
    QBasicMutexModel(bool rec) : m_owner(0), m_depth(0), m_recursive(rec) { }
    void lock()
    {
        qm_yield(QM_Y_LOCK);
        if (!m_recursive) QM_ASSERT(m_owner != qm_cur_tid, "non-recursive QMutex locked again by its owner (self-deadlock)");
        // a step that would block is pruned (see the header comment): the same schedule with this step started later is explored instead
        vf_assume(m_owner == 0 || m_owner == qm_cur_tid);
        m_owner = qm_cur_tid; ++m_depth;
    }
    bool tryLock(int = 0) { if (m_owner != 0 && !(m_recursive && m_owner == qm_cur_tid)) return false; m_owner = qm_cur_tid; ++m_depth; return true; }
    void unlock()
    {
        QM_ASSERT(m_owner == qm_cur_tid && m_depth > 0, "QMutex::unlock by a thread that does not hold it");
        if (--m_depth == 0) m_owner = 0;
        qm_yield(QM_Y_UNLOCK);
    }
};
class QMutex : public QBasicMutexModel { public: enum RecursionMode { NonRecursive, Recursive }; QMutex(RecursionMode m = NonRecursive) : QBasicMutexModel(m == Recursive) { } };
class QRecursiveMutex : public QBasicMutexModel { public: QRecursiveMutex() : QBasicMutexModel(true) { } };
class QMutexLocker
{
    QBasicMutexModel *m_m; bool m_locked;
public:
    explicit QMutexLocker(QBasicMutexModel *m) : m_m(m), m_locked(false) { if (m_m) { m_m->lock(); m_locked = true; } }
    ~QMutexLocker() { if (m_m && m_locked) m_m->unlock(); }
    void unlock() { if (m_m && m_locked) { m_m->unlock(); m_locked = false; } }
    void relock() { if (m_m && !m_locked) { m_m->lock(); m_locked = true; } }
    QBasicMutexModel *mutex() const { return m_m; }
private:
    QMutexLocker(const QMutexLocker &) = delete;
};

// ---------------------------------------------------------------- atomics (sequentially consistent; each access is a yield point)
class QAtomicInt
{
public:
    int m_v;
    QAtomicInt(int v = 0) : m_v(v) { }
    int loadAcquire() const { qm_yield(QM_Y_ATOMIC); return m_v; }
    int loadRelaxed() const { return m_v; }
    int load() const { return m_v; }
    void storeRelease(int v) { m_v = v; qm_yield(QM_Y_ATOMIC); }
    int fetchAndAddOrdered(int d) { int o = m_v; m_v += d; qm_yield(QM_Y_ATOMIC); return o; }
    int fetchAndSubOrdered(int d) { int o = m_v; m_v -= d; qm_yield(QM_Y_ATOMIC); return o; }
    bool testAndSetOrdered(int e, int n) { if (m_v == e) { m_v = n; return true; } return false; }
    bool ref() { return ++m_v != 0; }
    bool deref() { return --m_v != 0; }
};
template<typename T> class QAtomicPointer
{
public:
    T *m_p;
    QAtomicPointer(T *p = nullptr) : m_p(p) { }
    T *loadAcquire() const { return m_p; }
    T *loadRelaxed() const { return m_p; }
    void storeRelease(T *p) { m_p = p; }
    bool testAndSetOrdered(T *e, T *n) { if (m_p == e) { m_p = n; return true; } return false; }
};

// ---------------------------------------------------------------- posted events (FIFO per equal priority) and threads
#ifndef QM_EVQ_CAP
#define QM_EVQ_CAP 4
#endif
struct QmPosted { QObject *receiver; QEvent *event; int priority; };
inline QmPosted qm_evq[QM_EVQ_CAP];
inline int qm_evq_n = 0;
inline QObject *qm_evq_receiver = nullptr;
inline int qm_events_discarded = 0;      // events dropped because the thread ended or no application object exists
inline QCoreApplication *qm_app = nullptr;
inline void QObject::moveToThread(QThread *t) { m_affinity = t; if (t && t != qm_main_qthread) qm_evq_receiver = this; }

class QThread : public QObject
{
public:
    bool m_running, m_quit, m_finished, m_terminated;
    int m_tid;
    std::function<void()> m_finishedSlots[3]; int m_nfinished;
    QThread(QObject * = nullptr) : m_running(false), m_quit(false), m_finished(false), m_terminated(false), m_tid(0), m_nfinished(0) { m_affinity = qm_main_qthread; }
    static Qt::HANDLE currentThreadId() { return reinterpret_cast<Qt::HANDLE>(quintptr(0x1000) * quintptr(qm_cur_tid)); }
    static QThread *currentThread() { return nullptr; }
    bool isRunning() const { return m_running && !m_finished; }
    bool isFinished() const { return m_finished; }
    void start() { static int nextTid = 100; if (!m_running) { m_running = true; m_finished = false; m_quit = false; m_tid = nextTid++; } }
    void quit() { m_quit = true; qm_yield(QM_Y_POST); }
    void exit(int = 0) { quit(); }
    void requestInterruption() { }
    static void msleep(unsigned long) { qm_yield(QM_Y_SLEEP); }
    static void usleep(unsigned long) { qm_yield(QM_Y_SLEEP); }
    static void sleep(unsigned long) { qm_yield(QM_Y_SLEEP); }
    // wait(): gives the other threads QM_WAIT_ROUNDS chances to run; true iff the thread has finished
#ifndef QM_WAIT_ROUNDS
#define QM_WAIT_ROUNDS 3
#endif
    bool wait(unsigned long = ~0UL) { for (int k = 0; k < QM_WAIT_ROUNDS; ++k) if (m_running && !m_finished) qm_yield(QM_Y_WAIT); return !m_running || m_finished; }
    void terminate() { m_terminated = true; m_finished = true; m_running = false; }
    void finished() { }     // signal
    void emitFinished() { for (int i = 0; i < 3; ++i) if (i < m_nfinished) m_finishedSlots[i](); }
    // one step of this thread's event loop: deliver the oldest posted event of an object living in this thread, or finish
    // after quit().  Returns false if there was nothing to do.
    inline bool step();
};

class QCoreApplication : public QObject
{
public:
    std::function<void()> m_aboutToQuitSlots[3]; int m_nabout;
    QCoreApplication() : m_nabout(0) { qm_app = this; }
    ~QCoreApplication() override { if (qm_app == this) qm_app = nullptr; }
    static QCoreApplication *instance() { return qm_app; }
    void aboutToQuit() { }  // signal
    void emitAboutToQuit() { for (int i = 0; i < 3; ++i) if (i < m_nabout) m_aboutToQuitSlots[i](); }
    static void postEvent(QObject *receiver, QEvent *event, int priority = Qt::NormalEventPriority)
    {
        QM_ASSERT(receiver != nullptr && !receiver->m_deleted, "postEvent to a destroyed object");
        QM_LIMIT(qm_evq_n < QM_EVQ_CAP);
        // model restriction: one receiver object at a time (the worker); keeping it in its own variable keeps the pointer
        // concrete for the solver when an event is delivered
        // (the receiver is registered when it is moved to its thread, i.e. outside any symbolic branch)
        QM_LIMIT(qm_evq_receiver == receiver);
        // Qt keeps the posted-event queue sorted by priority (higher first), FIFO among equal priorities
        int pos = qm_evq_n;
        for (int i = QM_EVQ_CAP - 1; i >= 0; --i) if (i < qm_evq_n && qm_evq[i].priority < priority) pos = i;
        for (int i = QM_EVQ_CAP - 1; i > 0; --i) if (i <= qm_evq_n && i > pos) qm_evq[i] = qm_evq[i - 1];
        for (int i = 0; i < QM_EVQ_CAP; ++i) if (i == pos) { qm_evq[i].receiver = receiver; qm_evq[i].event = event; qm_evq[i].priority = priority; }
        ++qm_evq_n;
        qm_yield(QM_Y_POST);
    }
    static QString applicationName() { return QString::fromLatin1("app"); }
    static QString applicationVersion() { return QString::fromLatin1("1"); }
    static QString organizationName() { return QString::fromLatin1("org"); }
    static QString applicationDirPath() { return QString::fromLatin1("/d"); }
    static QString applicationFilePath() { return QString::fromLatin1("/d/app"); }
    static qint64 applicationPid() { return 42; }
};
#define qApp (QCoreApplication::instance())

inline bool QThread::step()
{
    if (!m_running || m_finished) return false;
    if (m_quit) {
        // QEventLoop::exit(): the loop ends; events still queued for objects of this thread are never delivered
        for (int i = 0; i < QM_EVQ_CAP; ++i) if (i < qm_evq_n && qm_evq_receiver && qm_evq_receiver->m_affinity == this) ++qm_events_discarded;
        int k = 0;
        for (int i = 0; i < QM_EVQ_CAP; ++i) if (i < qm_evq_n && !(qm_evq_receiver && qm_evq_receiver->m_affinity == this)) { if (k != i) qm_evq[k] = qm_evq[i]; ++k; }
        qm_evq_n = k;
        m_finished = true; m_running = false;
        int saved = qm_cur_tid; qm_cur_tid = m_tid;
        emitFinished();
        qm_cur_tid = saved;
        return true;
    }
    int idx = -1;
    for (int i = 0; i < QM_EVQ_CAP; ++i) if (idx < 0 && i < qm_evq_n && qm_evq_receiver && qm_evq_receiver->m_affinity == this) idx = i;
    if (idx < 0) return false;
    // the selected entry is read out with constant indices; the fall-back alternatives are valid dummy objects, never null:
    // a symbolic pointer with a null / garbage alternative would make every virtual call on it fan out in the encoding
    static QEvent dummyEvent(QEvent::None);
    QObject *r = qm_evq_receiver; QEvent *e = &dummyEvent;
    for (int i = 0; i < QM_EVQ_CAP; ++i) if (i == idx) { e = qm_evq[i].event; }
    for (int i = 0; i < QM_EVQ_CAP - 1; ++i) if (i >= idx && i < qm_evq_n - 1) qm_evq[i] = qm_evq[i + 1];
    --qm_evq_n;
    if (qm_app == nullptr) { ++qm_events_discarded; return true; }      // Qt: without a QCoreApplication, events in secondary threads are discarded
    int saved = qm_cur_tid; qm_cur_tid = m_tid;
    r->customEvent(e);
    qm_cur_tid = saved;
    return true;
}

template<typename F> inline bool QObject::connect(QCoreApplication *sender, void (QCoreApplication::*)(), QObject *, F f)
{
    QM_LIMIT(sender->m_nabout < 3);
    for (int i = 0; i < 3; ++i) if (i == sender->m_nabout) sender->m_aboutToQuitSlots[i] = std::function<void()>(f);
    ++sender->m_nabout; return true;
}
template<typename F> inline bool QObject::connect(QThread *sender, void (QThread::*)(), F f)
{
    QM_LIMIT(sender->m_nfinished < 3);
    for (int i = 0; i < 3; ++i) if (i == sender->m_nfinished) sender->m_finishedSlots[i] = std::function<void()>(f);
    ++sender->m_nfinished; return true;
}
inline bool QObject::connect(QThread *sender, void (QThread::*sig)(), QThread *receiver, void (QObject::*slot)())
{
    return connect(sender, sig, [receiver, slot]() { (receiver->*slot)(); });
}

// Qt's global message handler
// Qt: the default handler is a real function; installing nullptr restores it; the previous handler is returned
inline void qm_default_message_handler(QtMsgType, const QMessageLogContext &, const QString &) { }
inline QtMessageHandler qm_installed_handler = qm_default_message_handler;
inline QtMessageHandler qInstallMessageHandler(QtMessageHandler h) { QtMessageHandler old = qm_installed_handler; qm_installed_handler = h ? h : qm_default_message_handler; return old; }
inline QString qm_message_pattern;
inline void qSetMessagePattern(const QString &p) { qm_message_pattern = p; }
inline QString qFormatLogMessage(QtMsgType, const QMessageLogContext &, const QString &msg) { return msg; }
class QLoggingCategory { public: static void setFilterRules(const QString &) { } };
class QSysInfo
{
public:
    static QString productType() { return QString::fromLatin1("os"); } static QString productVersion() { return QString::fromLatin1("1"); }
    static QString kernelType() { return QString::fromLatin1("k"); } static QString kernelVersion() { return QString::fromLatin1("1"); }
    static QString currentCpuArchitecture() { return QString::fromLatin1("x"); } static QString buildAbi() { return QString::fromLatin1("x"); }
    static QString buildCpuArchitecture() { return QString::fromLatin1("x"); } static QString prettyProductName() { return QString::fromLatin1("os"); }
    static QString machineHostName() { return QString::fromLatin1("h"); } static QByteArray machineUniqueId() { return QByteArray("m"); } static QByteArray bootUniqueId() { return QByteArray("b"); }
};
class QUrl { public: QString m_s; QUrl() { } QUrl(const QString &s) : m_s(s) { } };
inline const char *qPrintable_helper(const QString &) { return ""; }
#define qPrintable(s) qPrintable_helper(s)
