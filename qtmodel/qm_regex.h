#pragma once
#include "qm_core.h"
#include "qm_regex_impl.h"
