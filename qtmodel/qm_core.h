// qm_core.h -- executable model of the QtCore value types used by qtlogger.
// Fixed-capacity, heap-free, assertion-carrying stand-ins.  Semantics follow Qt 5.15 and are
// checked against the real library by conformance/ (same driver built against both).
//   QM_ASSERT : a Qt precondition whose violation is UB / abort in release Qt  (checked, C14)
//   QM_LIMIT  : a model capacity; exceeding it cuts the path (assume(false)), never an alarm
#pragma once
#include <initializer_list>
#include <iterator>
#include <utility>
#include <type_traits>
#include <cstddef>
#include "vf.h"

#ifndef QM_STR_CAP
#define QM_STR_CAP 12
#endif
#ifndef QM_LIST_CAP
#define QM_LIST_CAP 6
#endif
#ifndef QM_HASH_CAP
#define QM_HASH_CAP 6
#endif

#define QM_ASSERT(c, msg) vf_assert((c), "qtmodel precondition: " msg)
#define QM_LIMIT(c) vf_assume(c)   /* no branch: keeps CBMC's path guards small */
#define QM_COPYABLE(T) \
    T(const T &o) { __builtin_memcpy((void *)this, (const void *)&o, sizeof(T)); } \
    T &operator=(const T &o) { __builtin_memcpy((void *)this, (const void *)&o, sizeof(T)); return *this; }

// ---------------------------------------------------------------- qglobal
typedef signed char qint8; typedef unsigned char quint8; typedef short qint16; typedef unsigned short quint16;
typedef int qint32; typedef unsigned int quint32; typedef long long qint64; typedef unsigned long long quint64;
typedef qint64 qlonglong; typedef quint64 qulonglong;
typedef unsigned char uchar; typedef unsigned short ushort; typedef unsigned int uint; typedef unsigned long ulong;
typedef unsigned long quintptr; typedef long qintptr; typedef long qptrdiff; typedef double qreal;

#define QT_VERSION_CHECK(major, minor, patch) ((major<<16)|(minor<<8)|(patch))
#define QT_VERSION QT_VERSION_CHECK(5, 15, 8)
#define QT_VERSION_STR "5.15.8"
#define Q_DECL_EXPORT
#define Q_DECL_IMPORT
#define Q_DECL_CONSTEXPR constexpr
#define Q_UNUSED(x) (void)x;
#define QT_BEGIN_NAMESPACE
#define QT_END_NAMESPACE
#define QT_FORWARD_DECLARE_CLASS(name) class name;
#define Q_DISABLE_COPY(Class) Class(const Class &) = delete; Class &operator=(const Class &) = delete;
#define Q_OS_LINUX 1
#define Q_OS_UNIX 1
#define Q_FALLTHROUGH() (void)0
#define Q_OBJECT
#define Q_SIGNALS public
#define Q_SLOTS
#define Q_EMIT
#define emit
#define signals public
#define slots
#define SIGNAL(a) "2" #a
#define SLOT(a) "1" #a

template<typename T> constexpr inline const T &qMin(const T &a, const T &b) { return (a < b) ? a : b; }
template<typename T> constexpr inline const T &qMax(const T &a, const T &b) { return (a < b) ? b : a; }
template<typename T> constexpr typename std::add_const<T>::type &qAsConst(T &t) noexcept { return t; }
#if __cplusplus < 201703L
namespace std { template<typename T> constexpr typename std::add_const<T>::type &as_const(T &t) noexcept { return t; } }
#endif
inline const char *qVersion() { return QT_VERSION_STR; }
template<typename T> inline T qToLittleEndian(T v) { return v; }   // x86-64 host, as in the real build
template<typename T> inline T qFromLittleEndian(T v) { return v; }

enum QtMsgType { QtDebugMsg, QtWarningMsg, QtCriticalMsg, QtFatalMsg, QtInfoMsg, QtSystemMsg = QtCriticalMsg };

class QMessageLogContext
{
public:
    constexpr QMessageLogContext() noexcept = default;
    constexpr QMessageLogContext(const char *fileName, int lineNumber, const char *functionName,
                                 const char *categoryName) noexcept
        : line(lineNumber), file(fileName), function(functionName), category(categoryName) { }
    int version = 2;
    int line = 0;
    const char *file = nullptr;
    const char *function = nullptr;
    const char *category = nullptr;
private:
    QMessageLogContext(const QMessageLogContext &) = delete;
    QMessageLogContext &operator=(const QMessageLogContext &) = delete;
};
typedef void (*QtMessageHandler)(QtMsgType, const QMessageLogContext &, const class QString &);

namespace Qt {
enum DateFormat { TextDate, ISODate, SystemLocaleShortDate, ISODateWithMs = 9 };
enum CaseSensitivity { CaseInsensitive, CaseSensitive };
enum SplitBehaviorFlags { KeepEmptyParts = 0, SkipEmptyParts = 1 };
enum TimeSpec { LocalTime, UTC };
enum ConnectionType { AutoConnection, DirectConnection, QueuedConnection };
enum EventPriority { HighEventPriority = 1, NormalEventPriority = 0, LowEventPriority = -1 };
}

// ---------------------------------------------------------------- QFlags
template<typename Enum> class QFlags
{
    int i;
public:
    constexpr QFlags() : i(0) { }
    constexpr QFlags(Enum f) : i(int(f)) { }
    constexpr explicit QFlags(int v, bool) : i(v) { }
    constexpr operator int() const { return i; }
    constexpr bool testFlag(Enum f) const { return (i & int(f)) == int(f) && (int(f) != 0 || i == int(f)); }
    QFlags &operator|=(QFlags f) { i |= f.i; return *this; }
    QFlags &operator|=(Enum f) { i |= int(f); return *this; }
    QFlags &operator&=(int m) { i &= m; return *this; }
    constexpr QFlags operator|(QFlags f) const { return QFlags(i | f.i, true); }
    constexpr QFlags operator|(Enum f) const { return QFlags(i | int(f), true); }
    constexpr QFlags operator&(Enum f) const { return QFlags(i & int(f), true); }
    constexpr bool operator!() const { return !i; }
};
#define Q_DECLARE_FLAGS(Flags, Enum) typedef QFlags<Enum> Flags;
#define Q_DECLARE_OPERATORS_FOR_FLAGS(Flags) \
    constexpr inline QFlags<Flags::enum_type_helper> qm_unused_##__LINE__();
#undef Q_DECLARE_OPERATORS_FOR_FLAGS
#define Q_DECLARE_OPERATORS_FOR_FLAGS(Flags)

// ---------------------------------------------------------------- allocation-size observation (C14)
// Requests whose size is driven by parsed numbers are recorded; harnesses assert on the maximum.
inline long long qm_alloc_max = 0;
#ifndef QM_ALLOC_LIMIT
#define QM_ALLOC_LIMIT (1LL << 26)
#endif
inline void qm_alloc_request(long long n)
{
    if (n > qm_alloc_max) qm_alloc_max = n;
    // an allocation of more than 64 Mi units is only ever requested because a number taken from the input drives it
    // (release Qt would throw std::bad_alloc -> abort for the sizes that follow)
    vf_assert(n <= QM_ALLOC_LIMIT, "KF:C14-width-alloc allocation size is driven by a number parsed from the input (would exhaust memory)");
}

// ---------------------------------------------------------------- QChar / QLatin1Char / QLatin1String
class QLatin1Char
{
    char ch;
public:
    constexpr explicit QLatin1Char(char c) : ch(c) { }
    constexpr char toLatin1() const { return ch; }
    constexpr ushort unicode() const { return ushort(uchar(ch)); }
};

class QChar
{
public:
    ushort ucs;
    enum SpecialCharacter { Null = 0, Space = 0x20, LastValidCodePoint = 0x10ffff };
    constexpr QChar() : ucs(0) { }
    constexpr QChar(ushort rc) : ucs(rc) { }
    constexpr QChar(short rc) : ucs(ushort(rc)) { }
    constexpr QChar(uint rc) : ucs(ushort(rc & 0xffff)) { }
    constexpr QChar(int rc) : ucs(ushort(rc & 0xffff)) { }
    constexpr QChar(QLatin1Char c) : ucs(c.unicode()) { }
    constexpr QChar(char c) : ucs(uchar(c)) { }
    constexpr QChar(uchar c) : ucs(c) { }
    constexpr QChar(char16_t c) : ucs(ushort(c)) { }
    constexpr ushort unicode() const { return ucs; }
    constexpr char toLatin1() const { return ucs > 0xff ? '\0' : char(ucs); }
    static constexpr QChar fromLatin1(char c) { return QChar(ushort(uchar(c))); }
    constexpr bool isNull() const { return ucs == 0; }
    static bool isLetterOrNumber(uint u)
    {
        if (u >= '0' && u <= '9') return true;
        if (u >= 'A' && u <= 'Z') return true;
        if (u >= 'a' && u <= 'z') return true;
        if (u < 0x80) return false;
        if (u == 0xAA || u == 0xB2 || u == 0xB3 || u == 0xB5 || u == 0xB9 || u == 0xBA || u == 0xBC
            || u == 0xBD || u == 0xBE)
            return true;
        if (u >= 0xC0 && u <= 0xFF && u != 0xD7 && u != 0xF7) return true;
        if (u > 0x10ffff) return false;
        QM_LIMIT(u <= 0xff);   // model: Unicode category tables beyond Latin-1 are not modelled
        return false;
    }
    bool isLetterOrNumber() const { return isLetterOrNumber(ucs); }
    static bool isSpace(uint u)
    {
        return u == 0x20 || (u <= 0x0d && u >= 0x09) || u == 0x85 || u == 0xa0 || u == 0x1680
               || (u >= 0x2000 && u <= 0x200a) || u == 0x2028 || u == 0x2029 || u == 0x202f || u == 0x205f
               || u == 0x3000;
    }
    bool isSpace() const { return isSpace(ucs); }
    bool isDigit() const { if (ucs >= '0' && ucs <= '9') return true; if (ucs < 0x80) return false; QM_LIMIT(ucs < 0x660); return false; }
    bool isHighSurrogate() const { return (ucs & 0xfc00) == 0xd800; }
    bool isLowSurrogate() const { return (ucs & 0xfc00) == 0xdc00; }
    QChar toLower() const { if (ucs >= 'A' && ucs <= 'Z') return QChar(ushort(ucs + 32)); QM_LIMIT(ucs < 0x80); return *this; }
};
constexpr inline bool operator==(QChar a, QChar b) { return a.ucs == b.ucs; }
constexpr inline bool operator!=(QChar a, QChar b) { return a.ucs != b.ucs; }
constexpr inline bool operator<(QChar a, QChar b) { return a.ucs < b.ucs; }
constexpr inline bool operator>(QChar a, QChar b) { return a.ucs > b.ucs; }
constexpr inline bool operator<=(QChar a, QChar b) { return a.ucs <= b.ucs; }
constexpr inline bool operator>=(QChar a, QChar b) { return a.ucs >= b.ucs; }

class QLatin1String
{
public:
    int m_size;
    const char *m_data;
    constexpr QLatin1String() : m_size(0), m_data(nullptr) { }
    template<int N> constexpr QLatin1String(const char (&s)[N]) : m_size(N - 1), m_data(s) { }
    constexpr QLatin1String(const char *s, int n) : m_size(n), m_data(s) { }
    constexpr int size() const { return m_size; }
    constexpr const char *data() const { return m_data; }
    constexpr const char *latin1() const { return m_data; }
};

inline int qm_strlen(const char *s)
{
    // bounded strlen without early exit: every C string that enters the model fits the string capacity
    int n = 0; bool open = true;
    for (int i = 0; i < QM_STR_CAP + 1; ++i) if (open) { if (s[i] == 0) open = false; else ++n; }
    QM_LIMIT(!open);
    return n;
}
inline uint qstrlen(const char *s) { return s ? uint(qm_strlen(s)) : 0u; }
inline int qstrcmp(const char *a, const char *b)
{
    if (!a || !b) return a ? 1 : (b ? -1 : 0);
    int r = 0; bool open = true;
    for (int i = 0; i < QM_STR_CAP + 1; ++i) if (open) {
        uchar x = uchar(a[i]), y = uchar(b[i]);
        if (x != y) { r = x < y ? -1 : 1; open = false; }
        else if (x == 0) open = false;
    }
    QM_LIMIT(!open);
    return r;
}


// ---------------------------------------------------------------- QByteArray
class QString;
class QByteArray
{
public:
    bool m_null;
    int m_len;
    char m_d[QM_STR_CAP + 1];

    QByteArray() { __builtin_memset((void *)this, 0, sizeof(QByteArray)); m_null = true; }
    QM_COPYABLE(QByteArray)
    QByteArray(const char *s) : QByteArray()
    {
        if (!s) return;
        m_null = false;
        int n = qm_strlen(s);
        QM_LIMIT(n <= QM_STR_CAP);
        for (int i = 0; i < QM_STR_CAP; ++i) if (i < n) m_d[i] = s[i];
        m_len = n;
    }
    QByteArray(const char *s, int n) : QByteArray()
    {
        if (!s) return;
        m_null = false;
        if (n < 0) n = qm_strlen(s);
        QM_LIMIT(n <= QM_STR_CAP);
        for (int i = 0; i < QM_STR_CAP; ++i) if (i < n) m_d[i] = s[i];
        m_len = n;
    }
    QByteArray(int n, char c) : QByteArray()
    {
        if (n <= 0) { m_null = false; return; }
        qm_alloc_request(n);
        QM_LIMIT(n <= QM_STR_CAP);
        m_null = false;
        for (int i = 0; i < QM_STR_CAP; ++i) if (i < n) m_d[i] = c;
        m_len = n;
    }
    int size() const { return m_len; }
    int length() const { return m_len; }
    int count() const { return m_len; }
    bool isEmpty() const { return m_len == 0; }
    bool isNull() const { return m_null; }
    const char *constData() const { return m_d; }
    const char *data() const { return m_d; }
    char *data() { return m_d; }
    operator const char *() const { return m_d; }
    char at(int i) const { QM_ASSERT(i >= 0 && i < m_len, "QByteArray::at index out of range"); return m_d[i]; }
    char operator[](int i) const { QM_ASSERT(i >= 0 && i < m_len, "QByteArray::operator[] index out of range"); return m_d[i]; }
    void clear() { *this = QByteArray(); }
    void reserve(int n) { qm_alloc_request(n); }
    void setlen(int n) { m_len = n; for (int i = 0; i <= QM_STR_CAP; ++i) if (i >= n) m_d[i] = 0; m_null = false; }
    bool startsWith(char c) const { return m_len > 0 && m_d[0] == c; }
    bool endsWith(char c) const { return m_len > 0 && m_d[m_len - 1] == c; }
    bool startsWith(const char *s) const
    {
        int n = qm_strlen(s);
        if (n > m_len) return false;
        bool qm_r = true;
        for (int i = 0; i < QM_STR_CAP; ++i) if (i < n && m_d[i] != s[i]) qm_r = false;
        return qm_r;
    }
    bool endsWith(const char *s) const
    {
        int n = qm_strlen(s);
        if (n > m_len) return false;
        bool qm_r = true;
        for (int i = 0; i < QM_STR_CAP; ++i) if (i < n && m_d[m_len - n + i] != s[i]) qm_r = false;
        return qm_r;
    }
    bool startsWith(const QByteArray &o) const { return startsWith(o.m_d); }
    void truncate(int pos) { if (pos < m_len) setlen(pos < 0 ? 0 : pos); }
    void chop(int n) { if (n > 0) setlen(n >= m_len ? 0 : m_len - n); }
    void resize(int n) { if (n < 0) n = 0; QM_LIMIT(n <= QM_STR_CAP); setlen(n); }
    bool matchAt(int i, const char *s, int n) const
    {
        if (i < 0 || i + n > m_len) return false;
        bool qm_r = true;
        for (int j = 0; j < QM_STR_CAP; ++j) if (j < n && m_d[i + j] != s[j]) qm_r = false;
        return qm_r;
    }
    int indexOf(const char *s, int from = 0) const
    {
        int n = qm_strlen(s);
        if (from < 0) from += m_len;
        if (from < 0) from = 0;
        if (n == 0) return from <= m_len ? from : -1;
        int qm_r = -1;
        for (int i = 0; i < QM_STR_CAP; ++i) if (qm_r < 0 && i >= from && matchAt(i, s, n)) qm_r = i;
        return qm_r;
    }
    int indexOf(char c, int from = 0) const
    {
        if (from < 0) from += m_len;
        if (from < 0) from = 0;
        int qm_r = -1;
        for (int i = 0; i < QM_STR_CAP; ++i) if (qm_r < 0 && i >= from && i < m_len && m_d[i] == c) qm_r = i;
        return qm_r;
    }
    int lastIndexOf(char c, int from = -1) const
    {
        if (from < 0) from += m_len;
        else if (from > m_len) from = m_len - 1;
        int qm_r = -1;
        for (int i = QM_STR_CAP - 1; i >= 0; --i) if (qm_r < 0 && i <= from && i < m_len && m_d[i] == c) qm_r = i;
        return qm_r;
    }
    int lastIndexOf(const char *s, int from = -1) const
    {
        int n = qm_strlen(s);
        if (n == 1) return lastIndexOf(s[0], from);      // Qt forwards one-character needles to the char overload
        int delta = m_len - n;
        if (from < 0) from = delta;
        if (from < 0 || from > m_len) return -1;
        if (from > delta) from = delta;
        int qm_r = -1;
        for (int i = QM_STR_CAP; i >= 0; --i) if (qm_r < 0 && i <= from && matchAt(i, s, n)) qm_r = i;
        return qm_r;
    }
    bool contains(char c) const { return indexOf(c) != -1; }
    bool contains(const char *s) const { return indexOf(s) != -1; }
    QByteArray mid(int pos, int n = -1) const
    {
        int len = m_len;
        if (pos > len) return QByteArray();
        if (pos < 0) {
            if (n < 0 || n + pos >= len) return *this;
            if (n + pos <= 0) return QByteArray();
            n += pos; pos = 0;
        } else if (uint(n) > uint(len - pos)) n = len - pos;
        if (pos == 0 && n == len) return *this;
        QByteArray r; r.m_null = false;
        if (n <= 0) return r;
        for (int i = 0; i < QM_STR_CAP; ++i) if (i < n) r.m_d[i] = m_d[pos + i];
        r.m_len = n;
        return r;
    }
    QByteArray left(int n) const { if (n >= m_len) return *this; if (n < 0) n = 0; QByteArray r(*this); r.setlen(n); return r; }
    QByteArray right(int n) const { if (n >= m_len) return *this; if (n < 0) n = 0; return mid(m_len - n, n); }
    QByteArray &remove(int pos, int n)
    {
        if (n <= 0 || uint(pos) >= uint(m_len)) return *this;
        if (n > m_len - pos) n = m_len - pos;
        QByteArray r; r.m_null = false; int k = 0;
        for (int i = 0; i < QM_STR_CAP; ++i) if (i < m_len && (i < pos || i >= pos + n)) r.m_d[k++] = m_d[i];
        r.m_len = k; *this = r; return *this;
    }
    QByteArray &replace(const char *before, const char *after)
    {
        int bn = qm_strlen(before), an = qm_strlen(after);
        if (bn == 0) { QM_LIMIT(false); return *this; }
        QByteArray r; r.m_null = m_null; int i = 0;
        for (int step = 0; step < QM_STR_CAP; ++step) if (i < m_len) {
            if (matchAt(i, before, bn)) {
                for (int j = 0; j < 16; ++j) if (j < an) { QM_LIMIT(r.m_len < QM_STR_CAP); r.m_d[r.m_len++] = after[j]; }
                i += bn;
            } else { QM_LIMIT(r.m_len < QM_STR_CAP); r.m_d[r.m_len++] = m_d[i++]; }
        }
        *this = r; return *this;
    }
    QByteArray &append(char c) { QM_LIMIT(m_len < QM_STR_CAP); m_d[m_len++] = c; m_null = false; return *this; }
    QByteArray &append(const char *s)
    {
        if (!s) return *this;
        int n = qm_strlen(s);
        QM_LIMIT(m_len + n <= QM_STR_CAP);
        for (int i = 0; i < QM_STR_CAP; ++i) if (i < n) m_d[m_len + i] = s[i];
        m_len += n; m_null = false; return *this;
    }
    QByteArray &append(const QByteArray &o)
    {
        if (o.m_null) return *this;
        QM_LIMIT(m_len + o.m_len <= QM_STR_CAP);
        for (int i = 0; i < QM_STR_CAP; ++i) if (i < o.m_len) m_d[m_len + i] = o.m_d[i];
        m_len += o.m_len; m_null = false; return *this;
    }
    QByteArray &operator+=(char c) { return append(c); }
    QByteArray &operator+=(const char *s) { return append(s); }
    QByteArray &operator+=(const QByteArray &o) { return append(o); }
    bool eq(const char *s, int n) const
    {
        if (n != m_len) return false;
        bool qm_r = true;
        for (int i = 0; i < QM_STR_CAP; ++i) if (i < n && m_d[i] != s[i]) qm_r = false;
        return qm_r;
    }
    QByteArray trimmed() const;
    inline QString toStdStringDummy() const;
};
inline bool operator==(const QByteArray &a, const QByteArray &b) { return a.eq(b.m_d, b.m_len); }
inline bool operator!=(const QByteArray &a, const QByteArray &b) { return !a.eq(b.m_d, b.m_len); }
inline bool operator==(const QByteArray &a, const char *s) { return s ? a.eq(s, qm_strlen(s)) : a.isEmpty(); }
inline bool operator!=(const QByteArray &a, const char *s) { return !(a == s); }
inline bool operator==(const char *s, const QByteArray &a) { return a == s; }

// ---------------------------------------------------------------- std::string stand-in for stderr diagnostics
struct qm_stdstring { int dummy; };

// ---------------------------------------------------------------- QString
template<typename T, int CAP> class QList;
class QStringList;
class QRegularExpression;

class QString
{
public:
    bool m_null;
    int m_len;
    ushort m_d[QM_STR_CAP];

    QString() { __builtin_memset((void *)this, 0, sizeof(QString)); m_null = true; }
    QM_COPYABLE(QString)
    QString(QChar c) : QString() { m_null = false; m_len = 1; m_d[0] = c.ucs; }
    QString(int n, QChar c) : QString()
    {
        // Qt: n <= 0 -> empty string (negative sizes are treated as 0 by QString(int,QChar) since 5.x)
        m_null = false;
        if (n <= 0) return;
        qm_alloc_request(2LL * n);
        QM_LIMIT(n <= QM_STR_CAP);
        for (int i = 0; i < QM_STR_CAP; ++i) if (i < n) m_d[i] = c.ucs;
        m_len = n;
    }
    QString(const QChar *u, int n) : QString()
    {
        if (!u) return;
        m_null = false;
        if (n <= 0) return;
        QM_LIMIT(n <= QM_STR_CAP);
        for (int i = 0; i < QM_STR_CAP; ++i) if (i < n) m_d[i] = u[i].ucs;
        m_len = n;
    }
    QString(const char *s) : QString() { *this = fromUtf8(s); }
    QString(const QByteArray &a) : QString() { *this = fromUtf8(a.m_d, a.m_len); }   // never null: constData() of a null QByteArray is ""
    QString(QLatin1String s) : QString() { *this = fromLatin1(s.m_data, s.m_size); }
    template<int N> static QString fromLiteral(const char16_t (&s)[N])
    {
        QString r; r.m_null = false;
        static_assert(N - 1 <= QM_STR_CAP || true, "");
        QM_LIMIT(N - 1 <= QM_STR_CAP);
        for (int i = 0; i < N - 1 && i < QM_STR_CAP; ++i) r.m_d[i] = ushort(s[i]);
        r.m_len = N - 1 <= QM_STR_CAP ? N - 1 : QM_STR_CAP;
        return r;
    }
    static QString fromLatin1(const char *s, int n = -1)
    {
        QString r;
        if (!s) return r;
        r.m_null = false;
        if (n < 0) n = qm_strlen(s);
        QM_LIMIT(n <= QM_STR_CAP);
        for (int i = 0; i < QM_STR_CAP; ++i) if (i < n) r.m_d[i] = ushort(uchar(s[i]));
        r.m_len = n;
        return r;
    }
    static QString fromLatin1(const QByteArray &a) { return a.m_null ? QString() : fromLatin1(a.m_d, a.m_len); }
    static QString fromUtf8(const char *s, int n = -1)
    {
        QString r;
        if (!s) return r;
        r.m_null = false;
        if (n < 0) n = qm_strlen(s);
        QM_LIMIT(n <= QM_STR_CAP);
        for (int i = 0; i < QM_STR_CAP; ++i) if (i < n) {
            QM_LIMIT(uchar(s[i]) < 0x80);   // model: multi-byte UTF-8 *decoding* is not modelled (inputs documented as ASCII)
            r.m_d[i] = ushort(uchar(s[i]));
        }
        r.m_len = n;
        return r;
    }
    static QString fromUtf8(const QByteArray &a) { return a.m_null ? QString() : fromUtf8(a.m_d, a.m_len); }
    static QString fromLocal8Bit(const char *s, int n = -1) { return fromUtf8(s, n); }
    static QString fromLocal8Bit(const QByteArray &a) { return fromUtf8(a); }
    static QString fromStdString(const qm_stdstring &) { return QString(); }

    int size() const { return m_len; }
    int length() const { return m_len; }
    int count() const { return m_len; }
    bool isEmpty() const { return m_len == 0; }
    bool isNull() const { return m_null; }
    const QChar at(int i) const { QM_ASSERT(i >= 0 && i < m_len, "QString::at index out of range"); return QChar(m_d[i]); }
    const QChar operator[](int i) const { QM_ASSERT(i >= 0 && i < m_len, "QString::operator[] index out of range"); return QChar(m_d[i]); }
    const QChar operator[](uint i) const { QM_ASSERT(i < uint(m_len), "QString::operator[] index out of range"); return QChar(m_d[i]); }
    const QChar *constData() const { return reinterpret_cast<const QChar *>(m_d); }
    const QChar *unicode() const { return reinterpret_cast<const QChar *>(m_d); }
    const ushort *utf16() const { return m_d; }
    void clear() { *this = QString(); }
    void setlen(int n) { m_len = n; m_null = false; }
    void resize(int n) { if (n < 0) n = 0; QM_LIMIT(n <= QM_STR_CAP); setlen(n); }
    void reserve(int n) { qm_alloc_request(2LL * n); }
    void squeeze() { }
    void truncate(int pos) { if (pos < m_len) resize(pos); }
    void chop(int n) { if (n > 0) resize(n >= m_len ? 0 : m_len - n); }   // chop(0) leaves a null string null (observed Qt 5.15.8)
    QString chopped(int n) const { QM_ASSERT(n >= 0 && n <= m_len, "QString::chopped out of range"); return left(m_len - n); }

    QString mid(int pos, int n = -1) const
    {
        int len = m_len;
        if (pos > len) return QString();
        if (pos < 0) {
            if (n < 0 || n + pos >= len) return *this;
            if (n + pos <= 0) return QString();
            n += pos; pos = 0;
        } else if (uint(n) > uint(len - pos)) n = len - pos;
        if (pos == 0 && n == len) return *this;
        QString r; r.m_null = false;
        if (n <= 0) return r;
        for (int i = 0; i < QM_STR_CAP; ++i) if (i < n) r.m_d[i] = m_d[pos + i];
        r.m_len = n;
        return r;
    }
    QString left(int n) const { if (uint(n) >= uint(m_len)) return *this; QString r(*this); r.m_len = n; r.m_null = false; return r; }
    QString right(int n) const { if (uint(n) >= uint(m_len)) return *this; return mid(m_len - n, n); }

    QString &append(const QString &s)
    {
        if (s.m_null) return *this;
        if (m_null) { *this = s; return *this; }
        QM_LIMIT(m_len + s.m_len <= QM_STR_CAP);
        for (int i = 0; i < QM_STR_CAP; ++i) if (i < s.m_len) m_d[m_len + i] = s.m_d[i];
        m_len += s.m_len;
        return *this;
    }
    QString &append(QChar c) { QM_LIMIT(m_len < QM_STR_CAP); m_d[m_len++] = c.ucs; m_null = false; return *this; }
    QString &append(QLatin1String s) { if (!s.m_data) return *this; QString t = fromLatin1(s.m_data, s.m_size); if (m_null) { *this = t; return *this; } return append(t); }
    QString &append(const char *s) { return append(fromUtf8(s)); }
    QString &append(const QByteArray &a) { return append(fromUtf8(a)); }
    QString &prepend(const QString &s) { QString r(s); r.m_null = false; r.append(*this); if (r.m_null && !m_null) r.m_null = false; *this = r; return *this; }
    QString &operator+=(const QString &s) { return append(s); }
    QString &operator+=(QChar c) { return append(c); }
    QString &operator+=(QLatin1String s) { return append(s); }
    QString &operator+=(QLatin1Char c) { return append(QChar(c)); }
    QString &operator+=(const char *s) { return append(s); }
    QString &operator+=(char c) { return append(QChar(c)); }
    QString &operator=(QChar c) { *this = QString(c); return *this; }
    QString &operator=(QLatin1String s) { *this = QString(s); return *this; }
    QString &operator=(const char *s) { *this = fromUtf8(s); return *this; }
    void push_back(QChar c) { append(c); }

    // straight-line comparison (fold expression with non-short-circuit operators): no loop, no branches for the solver
    template<size_t... I> bool eqImpl(const QString &o, std::index_sequence<I...>) const
    {
        return bool((m_len == o.m_len) & !(... | ((int(I) < m_len) & (m_d[I] != o.m_d[I]))));
    }
    bool eq(const QString &o) const { return eqImpl(o, std::make_index_sequence<QM_STR_CAP>()); }
    bool eqL1(const char *s, int n) const
    {
        if (m_len != n) return false;
        bool qm_r = true;
        for (int i = 0; i < QM_STR_CAP; ++i) if (i < n && m_d[i] != ushort(uchar(s[i]))) qm_r = false;
        return qm_r;
    }
    int cmp(const QString &o) const
    {
        int r = 0;
        for (int i = 0; i < QM_STR_CAP; ++i) if (r == 0 && i < m_len && i < o.m_len && m_d[i] != o.m_d[i]) r = m_d[i] < o.m_d[i] ? -1 : 1;
        if (r == 0) r = m_len == o.m_len ? 0 : (m_len < o.m_len ? -1 : 1);
        return r;
    }
    int compare(const QString &o) const { return cmp(o); }

    bool matchAt(int i, const QString &s) const
    {
        if (i < 0 || i + s.m_len > m_len) return false;
        bool qm_r = true;
        for (int j = 0; j < QM_STR_CAP; ++j) if (j < s.m_len && m_d[i + j] != s.m_d[j]) qm_r = false;
        return qm_r;
    }
    bool startsWith(const QString &s) const { if (m_null) return s.m_null; return matchAt(0, s); }   // Qt: a null haystack only starts with a null needle
    bool startsWith(QLatin1String s) const { return matchAt(0, QString(s)); }
    bool startsWith(QChar c) const { return m_len > 0 && m_d[0] == c.ucs; }
    bool startsWith(QLatin1Char c) const { return m_len > 0 && m_d[0] == c.unicode(); }
    bool endsWith(const QString &s) const { if (m_null) return s.m_null; return matchAt(m_len - s.m_len, s); }
    bool endsWith(QLatin1String s) const { return endsWith(QString(s)); }
    bool endsWith(QChar c) const { return m_len > 0 && m_d[m_len - 1] == c.ucs; }
    bool endsWith(QLatin1Char c) const { return m_len > 0 && m_d[m_len - 1] == c.unicode(); }
    int indexOf(QChar c, int from = 0) const
    {
        if (from < 0) from = from + m_len < 0 ? 0 : from + m_len;
        int qm_r = -1;
        for (int i = 0; i < QM_STR_CAP; ++i) if (qm_r < 0 && i >= from && i < m_len && m_d[i] == c.ucs) qm_r = i;
        return qm_r;
    }
    int indexOf(QLatin1Char c, int from = 0) const { return indexOf(QChar(c), from); }
    int indexOf(char c, int from = 0) const { return indexOf(QChar(c), from); }
    int indexOf(const QString &s, int from = 0) const
    {
        if (from < 0) from += m_len;
        if (from < 0 || s.m_len + from > m_len) return -1;     // Qt: a start before the beginning is NOT clamped for string needles
        if (s.m_len == 0) return from;
        int qm_r = -1;
        for (int i = 0; i < QM_STR_CAP; ++i) if (qm_r < 0 && i >= from && matchAt(i, s)) qm_r = i;
        return qm_r;
    }
    int indexOf(QLatin1String s, int from = 0) const { return indexOf(QString(s), from); }
    int indexOf(const char *s, int from = 0) const { return indexOf(QString(s), from); }
    int lastIndexOf(QChar c, int from = -1) const
    {
        if (from < 0) from += m_len;
        if (uint(from) >= uint(m_len)) return -1;
        int qm_r = -1;
        for (int i = QM_STR_CAP - 1; i >= 0; --i) if (qm_r < 0 && i <= from && m_d[i] == c.ucs) qm_r = i;
        return qm_r;
    }
    int lastIndexOf(QLatin1Char c, int from = -1) const { return lastIndexOf(QChar(c), from); }
    int lastIndexOf(const QString &s, int from = -1) const
    {
        int sl = s.m_len, l = m_len, delta = l - sl;
        if (from < 0) from += l;
        if (from == l && sl == 0) return from;
        if (uint(from) >= uint(l) || delta < 0) return -1;
        if (from > delta) from = delta;
        int qm_r = -1;
        for (int i = QM_STR_CAP - 1; i >= 0; --i) if (qm_r < 0 && i <= from && matchAt(i, s)) qm_r = i;
        return qm_r;
    }
    bool contains(QChar c) const { return indexOf(c) != -1; }
    bool contains(QLatin1Char c) const { return indexOf(QChar(c)) != -1; }
    bool contains(const QString &s) const { return indexOf(s) != -1; }
    bool contains(QLatin1String s) const { return indexOf(QString(s)) != -1; }
    bool contains(const char *s) const { return indexOf(QString(s)) != -1; }

    QString &remove(int pos, int n)
    {
        if (pos < 0) pos += m_len;
        if (uint(pos) >= uint(m_len) || n <= 0) return *this;
        if (n > m_len - pos) n = m_len - pos;
        QString r; r.m_null = false; int k = 0;
        for (int i = 0; i < QM_STR_CAP; ++i) if (i < m_len && (i < pos || i >= pos + n)) r.m_d[k++] = m_d[i];
        r.m_len = k; *this = r; return *this;
    }
    QString &remove(QChar c)
    {
        bool wasnull = m_null;
        QString r; int k = 0;
        for (int i = 0; i < QM_STR_CAP; ++i) if (i < m_len && m_d[i] != c.ucs) r.m_d[k++] = m_d[i];
        r.m_len = k; r.m_null = wasnull; *this = r; return *this;
    }
    QString &remove(QLatin1Char c) { return remove(QChar(c)); }
    QString &remove(const QString &s) { return replace(s, QString()); }
    QString &remove(const QRegularExpression &re);
    QString &replace(QChar before, QChar after)
    {
        for (int i = 0; i < QM_STR_CAP; ++i) if (i < m_len && m_d[i] == before.ucs) m_d[i] = after.ucs;
        return *this;
    }
    QString &replace(const QString &before, const QString &after)
    {
        if (m_len == 0) { if (before.m_len == 0) { bool n = m_null && after.m_null; *this = after; m_null = n; } return *this; }
        QM_LIMIT(before.m_len > 0);   // model: empty 'before' (insert between every char) not modelled
        bool any = false;
        QString r; r.m_null = false; int i = 0;
        for (int step = 0; step < QM_STR_CAP; ++step) if (i < m_len) {
            if (matchAt(i, before)) {
                QM_LIMIT(r.m_len + after.m_len <= QM_STR_CAP);
                for (int j = 0; j < QM_STR_CAP; ++j) if (j < after.m_len) r.m_d[r.m_len + j] = after.m_d[j];
                r.m_len += after.m_len;
                i += before.m_len; any = true;
            } else { QM_LIMIT(r.m_len < QM_STR_CAP); r.m_d[r.m_len++] = m_d[i++]; }
        }
        if (any) *this = r;
        return *this;
    }
    QString &replace(const char *b, const char *a) { return replace(QString(b), QString(a)); }
    QString &replace(QLatin1String b, QLatin1String a) { return replace(QString(b), QString(a)); }
    QString &replace(QChar b, const QString &a) { return replace(QString(b), a); }
    QString &insert(int pos, const QString &s)
    {
        if (s.m_len == 0) return *this;
        if (pos < 0) pos += m_len;
        QM_LIMIT(pos >= 0 && pos <= m_len);   // model: padding with spaces beyond the end is not modelled
        QString r = left(pos); r.m_null = false; r.append(s); r.append(mid(pos)); *this = r; return *this;
    }

    QString trimmed() const
    {
        int b = 0, e = m_len;
        for (int i = 0; i < QM_STR_CAP; ++i) if (b < e && QChar::isSpace(m_d[b])) ++b;
        for (int i = 0; i < QM_STR_CAP; ++i) if (b < e && QChar::isSpace(m_d[e - 1])) --e;
        if (b == 0 && e == m_len) return *this;
        QString r; r.m_null = false;
        for (int i = 0; i < QM_STR_CAP; ++i) if (i < e - b) r.m_d[i] = m_d[b + i];
        r.m_len = e - b;
        return r;
    }
    QString toLower() const { QString r(*this); for (int i = 0; i < QM_STR_CAP; ++i) if (i < m_len) r.m_d[i] = QChar(m_d[i]).toLower().ucs; return r; }

    // integer parsing as QLocale::c(): optional surrounding whitespace, optional sign, decimal digits, no grouping
    qlonglong toLongLongHelper(bool *ok, qlonglong lo, qlonglong hi) const
    {
        if (ok) *ok = false;
        QString t = trimmed();
        int i = 0; bool neg = false;
        if (t.m_len > 0 && (t.m_d[0] == '-' || t.m_d[0] == '+')) { neg = t.m_d[0] == '-'; i = 1; }
        if (i >= t.m_len) return 0;
        QM_LIMIT(t.m_len - i <= 15);   // model: more than 15 digits not modelled (would need 128-bit accumulation)
        qlonglong v = 0; bool bad = false;
        // (at most 15 digits after an optional sign, so 16 positions suffice; x10 as shift-and-add: a generic 64-bit multiplier per
        //  position dominated the SAT instance of every harness that parses numbers out of symbolic file names)
        for (int k = 0; k < 16 && k < QM_STR_CAP; ++k) if (k >= i && k < t.m_len) {
            ushort c = t.m_d[k];
            if (c < '0' || c > '9') bad = true;
            else v = (v << 3) + (v << 1) + (c - '0');
        }
        if (bad) return 0;
        if (neg) v = -v;
        if (v < lo || v > hi) return 0;
        if (ok) *ok = true;
        return v;
    }
    int toInt(bool *ok = nullptr, int base = 10) const { (void)base; return int(toLongLongHelper(ok, -2147483647LL - 1, 2147483647LL)); }
    uint toUInt(bool *ok = nullptr, int base = 10) const { (void)base; return uint(toLongLongHelper(ok, 0, 4294967295LL)); }
    qlonglong toLongLong(bool *ok = nullptr, int base = 10) const { (void)base; return toLongLongHelper(ok, -999999999999999LL, 999999999999999LL); }

    static QString number(qlonglong v, int base = 10)
    {
        bool neg = v < 0;
        qulonglong u = neg ? qulonglong(-(v + 1)) + 1 : qulonglong(v);
        QString r = number(u, base);
        if (neg) { QString m(QChar('-')); m.append(r); return m; }
        return r;
    }
    static QString number(qulonglong u, int base = 10)
    {
        QString r; r.m_null = false;
        if (base == 16) {
            ushort tmp[16]; int n = 0;
            for (int i = 0; i < 16; ++i) { uint dgt = uint((u >> (4 * i)) & 15); tmp[i] = ushort(dgt < 10 ? '0' + dgt : 'a' + dgt - 10); if (dgt) n = i + 1; }
            if (n == 0) n = 1;
            QM_LIMIT(n <= QM_STR_CAP);
            for (int i = 0; i < 16; ++i) if (i < n && i < QM_STR_CAP) r.m_d[i] = tmp[n - 1 - i];
            r.m_len = n;
            return r;
        }
        QM_LIMIT(base == 10);
        QM_LIMIT(u <= 9999);   // model: decimal formatting by comparison chains, 4 digits
        uint x = uint(u); uint d3 = 0, d2 = 0, d1 = 0;
        for (int i = 0; i < 9; ++i) if (x >= 1000) { x -= 1000; ++d3; }
        for (int i = 0; i < 9; ++i) if (x >= 100) { x -= 100; ++d2; }
        for (int i = 0; i < 9; ++i) if (x >= 10) { x -= 10; ++d1; }
        int n = 0;
        if (d3) r.m_d[n++] = ushort('0' + d3);
        if (d3 || d2) r.m_d[n++] = ushort('0' + d2);
        if (d3 || d2 || d1) r.m_d[n++] = ushort('0' + d1);
        r.m_d[n++] = ushort('0' + x);
        QM_LIMIT(n <= QM_STR_CAP);
        r.m_len = n;
        return r;
    }
    static QString number(int v, int base = 10) { return number(qlonglong(v), base); }
    static QString number(uint v, int base = 10) { return number(qulonglong(v), base); }
    static QString number(long v, int base = 10) { return number(qlonglong(v), base); }
    static QString number(ulong v, int base = 10) { return number(qulonglong(v), base); }
    static QString number(double, char = 'g', int = 6)
    {
        // model: floating point formatting is opaque (Qt's); one private-use code unit stands for the text
        return QString(QChar(ushort(0xE001)));
    }

    // %N substitution: replaces all occurrences of the lowest-numbered marker (Qt semantics for 1..99)
    static int markerAt(const QString &s, int i, int *len)
    {
        // returns marker number (1..99) at position i or -1
        if (i + 1 >= s.m_len || s.m_d[i] != '%') return -1;
        ushort c = s.m_d[i + 1];
        if (c == 'L') { QM_LIMIT(false); return -1; }
        if (c < '0' || c > '9') return -1;
        int v = c - '0'; *len = 2;
        if (i + 2 < s.m_len && s.m_d[i + 2] >= '0' && s.m_d[i + 2] <= '9') { v = v * 10 + (s.m_d[i + 2] - '0'); *len = 3; }
        return v;
    }
    static int lowestMarker(const QString &s, int above)
    {
        int lo = 1000;
        for (int i = 0; i < QM_STR_CAP; ++i) if (i < s.m_len) { int l; int m = markerAt(s, i, &l); if (m > above && m < lo) lo = m; }
        return lo == 1000 ? -1 : lo;
    }
    QString argN(const QString *const *args, int nargs) const
    {
        // one pass over the ORIGINAL string for the nargs lowest distinct markers (QString::arg(a1,a2,...) semantics)
        int nums[4]; int prev = -1;
        QM_LIMIT(nargs <= 4);
        for (int k = 0; k < 4; ++k) { nums[k] = -1; if (k < nargs) { nums[k] = lowestMarker(*this, prev); if (nums[k] >= 0) prev = nums[k]; else prev = 1000; } }
        if (nums[0] < 0) return *this;      // no place marker: Qt warns and returns the string unchanged
        QString r; r.m_null = false; int i = 0;
        for (int step = 0; step < QM_STR_CAP; ++step) if (i < m_len) {
            int l = 0; int m = markerAt(*this, i, &l); int which = -1;
            if (m >= 0) for (int k = 0; k < 4; ++k) if (k < nargs && nums[k] == m) which = k;
            if (which >= 0) {
                const QString &a = *args[which];
                QM_LIMIT(r.m_len + a.m_len <= QM_STR_CAP);
                for (int j = 0; j < QM_STR_CAP; ++j) if (j < a.m_len) r.m_d[r.m_len + j] = a.m_d[j];
                r.m_len += a.m_len; i += l;
            } else { QM_LIMIT(r.m_len < QM_STR_CAP); r.m_d[r.m_len++] = m_d[i++]; }
        }
        return r;
    }
    QString arg(const QString &a) const { const QString *p[1] = { &a }; return argN(p, 1); }
    QString arg(const QString &a, const QString &b) const { const QString *p[2] = { &a, &b }; return argN(p, 2); }
    QString arg(const QString &a, const QString &b, const QString &c) const { const QString *p[3] = { &a, &b, &c }; return argN(p, 3); }
    QString arg(const QString &a, const QString &b, const QString &c, const QString &d) const { const QString *p[4] = { &a, &b, &c, &d }; return argN(p, 4); }
    QString arg(int v) const { return arg(number(v)); }
    QString arg(uint v) const { return arg(number(v)); }
    QString arg(qlonglong v) const { return arg(number(v)); }
    QString arg(QChar c) const { return arg(QString(c)); }
    QString arg(const char *s) const { return arg(QString(s)); }

    QByteArray toUtf8() const
    {
        QByteArray r;
        if (m_null) return r;
        r.m_null = false;
        int k = 0;
        for (int i = 0; i < QM_STR_CAP; ++i) if (i < m_len) {
            uint u = m_d[i];
            if (u < 0x80) { QM_LIMIT(k + 1 <= QM_STR_CAP); r.m_d[k++] = char(u); }
            else if (u < 0x800) { QM_LIMIT(k + 2 <= QM_STR_CAP); r.m_d[k++] = char(0xc0 | (u >> 6)); r.m_d[k++] = char(0x80 | (u & 0x3f)); }
            else if ((u & 0xfc00) == 0xd800 && i + 1 < m_len && (m_d[i + 1] & 0xfc00) == 0xdc00) {
                uint c = 0x10000 + ((u & 0x3ff) << 10) + (m_d[i + 1] & 0x3ff);
                QM_LIMIT(k + 4 <= QM_STR_CAP);
                r.m_d[k++] = char(0xf0 | (c >> 18)); r.m_d[k++] = char(0x80 | ((c >> 12) & 0x3f));
                r.m_d[k++] = char(0x80 | ((c >> 6) & 0x3f)); r.m_d[k++] = char(0x80 | (c & 0x3f));
                ++i;
            } else if ((u & 0xf800) == 0xd800) { QM_LIMIT(k + 3 <= QM_STR_CAP); r.m_d[k++] = char(0xef); r.m_d[k++] = char(0xbf); r.m_d[k++] = char(0xbd); }   // lone surrogate -> U+FFFD
            else { QM_LIMIT(k + 3 <= QM_STR_CAP); r.m_d[k++] = char(0xe0 | (u >> 12)); r.m_d[k++] = char(0x80 | ((u >> 6) & 0x3f)); r.m_d[k++] = char(0x80 | (u & 0x3f)); }
        }
        r.m_len = k;
        return r;
    }
    QByteArray toLocal8Bit() const { return toUtf8(); }   // assumption: UTF-8 locale
    QByteArray toLatin1() const
    {
        QByteArray r; if (m_null) return r; r.m_null = false;
        for (int i = 0; i < QM_STR_CAP; ++i) if (i < m_len) r.m_d[i] = m_d[i] > 0xff ? '?' : char(m_d[i]);
        r.m_len = m_len; return r;
    }
    qm_stdstring toStdString() const { return qm_stdstring { 0 }; }
    inline QStringList split(QChar sep, Qt::SplitBehaviorFlags b = Qt::KeepEmptyParts) const;
    inline QStringList split(const QString &sep, Qt::SplitBehaviorFlags b = Qt::KeepEmptyParts) const;
    enum SplitBehavior { KeepEmptyParts, SkipEmptyParts };
};
inline bool operator==(const QString &a, const QString &b) { return a.eq(b); }
inline bool operator!=(const QString &a, const QString &b) { return !a.eq(b); }
inline bool operator<(const QString &a, const QString &b) { return a.cmp(b) < 0; }
inline bool operator>(const QString &a, const QString &b) { return a.cmp(b) > 0; }
inline bool operator==(const QString &a, QLatin1String b) { return a.eqL1(b.m_data, b.m_size); }
inline bool operator!=(const QString &a, QLatin1String b) { return !a.eqL1(b.m_data, b.m_size); }
inline bool operator==(QLatin1String b, const QString &a) { return a.eqL1(b.m_data, b.m_size); }
inline bool operator==(const QString &a, const char *s) { return a.eq(QString::fromUtf8(s)); }
inline bool operator!=(const QString &a, const char *s) { return !a.eq(QString::fromUtf8(s)); }
inline bool operator==(const char *s, const QString &a) { return a == s; }
inline bool operator==(const QString &a, QChar c) { return a.m_len == 1 && a.m_d[0] == c.ucs; }
inline const QString operator+(const QString &a, const QString &b) { QString r(a); r += b; return r; }
inline const QString operator+(const QString &a, const char *b) { QString r(a); r += QString::fromUtf8(b); return r; }
inline const QString operator+(const char *a, const QString &b) { QString r = QString::fromUtf8(a); r += b; return r; }
inline const QString operator+(const QString &a, QChar b) { QString r(a); r += b; return r; }
inline const QString operator+(QChar a, const QString &b) { QString r(a); r += b; return r; }
inline const QString operator+(const QString &a, QLatin1String b) { QString r(a); r += b; return r; }
inline const QString operator+(QLatin1String a, const QString &b) { QString r(a); r += b; return r; }
inline const QString operator+(const QString &a, QLatin1Char b) { QString r(a); r += QChar(b); return r; }
inline bool operator==(QChar a, QLatin1Char b) { return a.ucs == b.unicode(); }
inline bool operator==(QChar a, char b) { return a.ucs == ushort(uchar(b)); }
inline bool operator!=(QChar a, char b) { return a.ucs != ushort(uchar(b)); }
inline bool operator==(QChar a, int b) { return int(a.ucs) == b; }

#define QStringLiteral(str) QString::fromLiteral(u"" str)
#define QByteArrayLiteral(str) QByteArray(str, sizeof(str) - 1)

inline QByteArray QByteArray::trimmed() const
{
    int b = 0, e = m_len;
    for (int i = 0; i < QM_STR_CAP; ++i) if (b < e && QChar::isSpace(uchar(m_d[b])) && uchar(m_d[b]) < 0x80) ++b;
    for (int i = 0; i < QM_STR_CAP; ++i) if (b < e && QChar::isSpace(uchar(m_d[e - 1])) && uchar(m_d[e - 1]) < 0x80) --e;
    return mid(b, e - b);
}

// qm_stdstring / std::cerr sink: diagnostics to stderr are irrelevant for every property -> no-ops.
namespace qm_io {
struct ostream_t { int dummy; };
struct endl_t { };
inline ostream_t &operator<<(ostream_t &o, const char *) { return o; }
inline ostream_t &operator<<(ostream_t &o, const qm_stdstring &) { return o; }
inline ostream_t &operator<<(ostream_t &o, int) { return o; }
inline ostream_t &operator<<(ostream_t &o, bool) { return o; }
inline ostream_t &operator<<(ostream_t &o, long long) { return o; }
inline ostream_t &operator<<(ostream_t &o, endl_t) { return o; }
inline ostream_t cerr;
inline ostream_t cout;
static const endl_t endl = endl_t();
inline ostream_t &flush(ostream_t &o) { return o; }
}

// index-based random access iterators of QList (concrete indices fold in symex; validity is checkable).  At namespace scope so
// that the std::sort overload below can be selected for them by partial ordering.
template<typename T, typename L, typename V> struct qm_list_iter {
    typedef std::random_access_iterator_tag iterator_category;
    typedef T value_type; typedef int difference_type; typedef V *pointer; typedef V &reference;
    L *l; int i;
    qm_list_iter() : l(nullptr), i(0) { }
    qm_list_iter(L *l_, int i_) : l(l_), i(i_) { }
    template<typename L2, typename V2> qm_list_iter(const qm_list_iter<T, L2, V2> &o) : l(o.l), i(o.i) { }
    V &operator*() const { QM_ASSERT(l != nullptr && i >= 0 && i < l->m_n, "QList iterator dereferenced outside [begin,end)"); return l->m_a[i]; }
    V *operator->() const { QM_ASSERT(l != nullptr && i >= 0 && i < l->m_n, "QList iterator dereferenced outside [begin,end)"); return &l->m_a[i]; }
    V &operator[](int k) const { return *(*this + k); }
    qm_list_iter &operator++() { ++i; return *this; }
    qm_list_iter operator++(int) { qm_list_iter t(*this); ++i; return t; }
    qm_list_iter &operator--() { --i; return *this; }
    qm_list_iter operator--(int) { qm_list_iter t(*this); --i; return t; }
    qm_list_iter &operator+=(int k) { i += k; return *this; }
    qm_list_iter &operator-=(int k) { i -= k; return *this; }
    qm_list_iter operator+(int k) const { return qm_list_iter(l, i + k); }
    qm_list_iter operator-(int k) const { return qm_list_iter(l, i - k); }
    template<typename L2, typename V2> int operator-(const qm_list_iter<T, L2, V2> &o) const { return i - o.i; }
    template<typename L2, typename V2> bool operator==(const qm_list_iter<T, L2, V2> &o) const { return i == o.i; }
    template<typename L2, typename V2> bool operator!=(const qm_list_iter<T, L2, V2> &o) const { return i != o.i; }
    template<typename L2, typename V2> bool operator<(const qm_list_iter<T, L2, V2> &o) const { return i < o.i; }
    template<typename L2, typename V2> bool operator>(const qm_list_iter<T, L2, V2> &o) const { return i > o.i; }
    template<typename L2, typename V2> bool operator<=(const qm_list_iter<T, L2, V2> &o) const { return i <= o.i; }
    template<typename L2, typename V2> bool operator>=(const qm_list_iter<T, L2, V2> &o) const { return i >= o.i; }
};
// std::sort on a QList: libstdc++'s std::sort is __introsort_loop (which does nothing for at most _S_threshold = 16
// elements) followed by __final_insertion_sort (= __insertion_sort for at most 16 elements).  A model list never holds more
// than its static capacity, so for capacities <= 16 the call below IS what libstdc++ executes; only the code paths for longer
// ranges (median-of-3 partitioning, heap sort), which symbolic execution would otherwise have to explore, are left out.
namespace std {
template<typename T, typename L, typename V, typename Cmp>
inline void sort(qm_list_iter<T, L, V> first, qm_list_iter<T, L, V> last, Cmp comp)
{
    static_assert(L::qm_capacity <= 16, "std::sort model: list capacity above libstdc++'s insertion-sort threshold");
    if (first != last) std::__insertion_sort(first, last, __gnu_cxx::__ops::__iter_comp_iter(comp));
}
}
// ---------------------------------------------------------------- QList (fixed capacity, raw-pointer iterators)
template<typename T, int CAP = QM_LIST_CAP> class QList
{
public:
    int m_n;
    T m_a[CAP];
    enum { qm_capacity = CAP };
    template<typename L, typename V> using iter_base = qm_list_iter<T, L, V>;
    typedef iter_base<QList, T> iterator;
    typedef iter_base<const QList, const T> const_iterator;
    typedef T value_type;
    typedef int size_type;
    typedef T &reference;
    typedef const T &const_reference;

    QList() : m_n(0) { }
    QList(const QList &o) : m_n(0) { for (int i = 0; i < CAP; ++i) if (i < o.m_n) m_a[i] = o.m_a[i]; m_n = o.m_n; }
    QList &operator=(const QList &o) { for (int i = 0; i < CAP; ++i) if (i < o.m_n) m_a[i] = o.m_a[i]; m_n = o.m_n; return *this; }
    QList(std::initializer_list<T> l) : m_n(0) { append(l); }
    int size() const { return m_n; }
    int count() const { return m_n; }
    int length() const { return m_n; }
    bool isEmpty() const { return m_n == 0; }
    bool empty() const { return m_n == 0; }
    void clear() { m_n = 0; }
    void reserve(int n) { qm_alloc_request(n); }
    iterator begin() { return iterator(this, 0); }
    iterator end() { return iterator(this, m_n); }
    const_iterator begin() const { return const_iterator(this, 0); }
    const_iterator end() const { return const_iterator(this, m_n); }
    const_iterator cbegin() const { return const_iterator(this, 0); }
    const_iterator cend() const { return const_iterator(this, m_n); }
    typedef std::reverse_iterator<iterator> reverse_iterator;
    typedef std::reverse_iterator<const_iterator> const_reverse_iterator;
    reverse_iterator rbegin() { return reverse_iterator(end()); }
    reverse_iterator rend() { return reverse_iterator(begin()); }
    const_reverse_iterator rbegin() const { return const_reverse_iterator(end()); }
    const_reverse_iterator rend() const { return const_reverse_iterator(begin()); }
    const_reverse_iterator crbegin() const { return const_reverse_iterator(end()); }
    const_reverse_iterator crend() const { return const_reverse_iterator(begin()); }
    const_iterator constBegin() const { return cbegin(); }
    const_iterator constEnd() const { return cend(); }
    // element writes use constant indices under guards (a store at a symbolic index into an array of structs
    // destroys CBMC's field sensitivity and makes symex crawl)
    void append(const T &v) { QM_LIMIT(m_n < CAP); for (int j = 0; j < CAP; ++j) if (j == m_n) m_a[j] = v; ++m_n; }
    void push_back(const T &v) { append(v); }
    void append(std::initializer_list<T> l) { for (const T &v : l) append(v); }
    void append(const QList &o) { for (int i = 0; i < CAP; ++i) if (i < o.m_n) append(o.m_a[i]); }
    void prepend(const T &v) { insert(0, v); }
    QList &operator<<(const T &v) { append(v); return *this; }
    QList &operator+=(const T &v) { append(v); return *this; }
    const T &at(int i) const { QM_ASSERT(i >= 0 && i < m_n, "QList::at index out of range"); return m_a[i]; }
    const T &operator[](int i) const { QM_ASSERT(i >= 0 && i < m_n, "QList::operator[] index out of range"); return m_a[i]; }
    T &operator[](int i) { QM_ASSERT(i >= 0 && i < m_n, "QList::operator[] index out of range"); return m_a[i]; }
    T value(int i) const { return (i >= 0 && i < m_n) ? m_a[i] : T(); }
    T &first() { QM_ASSERT(m_n > 0, "QList::first on empty list"); return m_a[0]; }
    const T &first() const { QM_ASSERT(m_n > 0, "QList::first on empty list"); return m_a[0]; }
    const T &constFirst() const { return first(); }
    T &last() { QM_ASSERT(m_n > 0, "QList::last on empty list"); return m_a[m_n - 1]; }
    const T &last() const { QM_ASSERT(m_n > 0, "QList::last on empty list"); return m_a[m_n - 1]; }
    void insert(int i, const T &v)
    {
        // Qt: out-of-range index is clamped (i<=0 prepend, i>=size append)
        if (i < 0) i = 0;
        if (i > m_n) i = m_n;
        QM_LIMIT(m_n < CAP);
        for (int k = CAP - 1; k > 0; --k) if (k <= m_n && k > i) m_a[k] = m_a[k - 1];
        for (int k = 0; k < CAP; ++k) if (k == i) m_a[k] = v;
        ++m_n;
    }
    iterator insert(iterator before, const T &v)
    {
        QM_ASSERT(before.l == this && before.i >= 0 && before.i <= m_n, "QList::insert: iterator does not point into this list");
        int i = before.i;
        insert(i, v);
        return iterator(this, i);
    }
    void removeAt(int i)
    {
        if (i < 0 || i >= m_n) return;
        for (int k = 0; k < CAP - 1; ++k) if (k >= i && k < m_n - 1) m_a[k] = m_a[k + 1];
        --m_n;
    }
    void removeFirst() { QM_ASSERT(m_n > 0, "QList::removeFirst on empty list"); removeAt(0); }
    void removeLast() { QM_ASSERT(m_n > 0, "QList::removeLast on empty list"); removeAt(m_n - 1); }
    T takeFirst() { T t = first(); removeFirst(); return t; }
    iterator erase(iterator pos) { QM_ASSERT(pos.l == this && pos.i >= 0 && pos.i < m_n, "QList::erase: bad iterator"); removeAt(pos.i); return iterator(this, pos.i); }
    iterator erase(iterator first, iterator last)
    {
        QM_ASSERT(first.l == this && last.l == this && first.i >= 0 && first.i <= last.i && last.i <= m_n, "QList::erase(range): bad iterators");
        int d = last.i - first.i;
        if (d > 0) {
            for (int k = 0; k < CAP; ++k) if (k >= first.i && k + d < m_n) for (int j = 0; j < CAP; ++j) if (j == k + d) m_a[k] = m_a[j];
            m_n -= d;
        }
        return iterator(this, first.i);
    }
    int removeAll(const T &v)
    {
        int k = 0, removed = 0;
        for (int i = 0; i < CAP; ++i) if (i < m_n) { if (m_a[i] == v) ++removed; else { if (k != i) m_a[k] = m_a[i]; ++k; } }
        m_n = k;
        return removed;
    }
    bool removeOne(const T &v) { int i = indexOf(v); if (i < 0) return false; removeAt(i); return true; }
    int indexOf(const T &v, int from = 0) const { int r = -1; for (int i = 0; i < CAP; ++i) if (r < 0 && i >= from && i < m_n && m_a[i] == v) r = i; return r; }
    bool contains(const T &v) const { return indexOf(v) >= 0; }
    bool operator==(const QList &o) const { bool r = m_n == o.m_n; for (int i = 0; i < CAP; ++i) if (i < m_n && i < o.m_n && !(m_a[i] == o.m_a[i])) r = false; return r; }
};

template<typename T> class QMutableListIterator
{
    QList<T> *c;
    int i, n;   // i: position; n: index of last returned item or -1
public:
    QMutableListIterator(QList<T> &l) : c(&l), i(0), n(-1) { }
    bool hasNext() const { return i < c->m_n; }
    T &next() { QM_ASSERT(i < c->m_n, "QMutableListIterator::next past the end"); n = i++; return c->m_a[n]; }
    void remove() { if (n >= 0) { c->removeAt(n); i = n; n = -1; } }
    T &value() { QM_ASSERT(n >= 0, "QMutableListIterator::value without item"); return c->m_a[n]; }
};

class QStringList : public QList<QString>
{
public:
    QStringList() { }
    QStringList(const QList<QString> &o) : QList<QString>(o) { }
    QStringList(std::initializer_list<QString> l) : QList<QString>(l) { }
    QString join(const QString &sep) const { QString r; r.m_null = false; for (int i = 0; i < QM_LIST_CAP; ++i) if (i < m_n) { if (i) r += sep; r += m_a[i]; } return r; }
    QString join(QChar sep) const { return join(QString(sep)); }
    using QList<QString>::contains;
    bool contains(const QString &s, Qt::CaseSensitivity cs) const
    {
        bool r = false;
        for (int i = 0; i < QM_LIST_CAP; ++i) if (i < m_n && (cs == Qt::CaseSensitive ? m_a[i] == s : m_a[i].toLower() == s.toLower())) r = true;
        return r;
    }
};

inline QStringList QString::split(QChar sep, Qt::SplitBehaviorFlags b) const
{
    QStringList l;
    int start = 0;
    for (int i = 0; i <= QM_STR_CAP; ++i) if (i <= m_len) {
        if (i == m_len || m_d[i] == sep.ucs) {
            if (i > start || b == Qt::KeepEmptyParts) l.append(mid(start, i - start));
            start = i + 1;
        }
    }
    return l;
}
inline QStringList QString::split(const QString &sep, Qt::SplitBehaviorFlags b) const
{
    QM_LIMIT(sep.m_len == 1);
    return split(QChar(sep.m_d[0]), b);
}

// ---------------------------------------------------------------- qHash + QHash / QSet (association list, insertion order)
inline uint qHash(uint key, uint seed = 0) noexcept { return key ^ seed; }
inline uint qHash(int key, uint seed = 0) noexcept { return uint(key) ^ seed; }
inline uint qHash(const QString &s, uint seed = 0) noexcept
{
    // Qt 5.15 qHash(QString) with seed 0 (no CRC32 path): h = 31*h + unit.  A non-zero seed is outside the model.
    QM_LIMIT(seed == 0);
    uint h = 0;
    for (int i = 0; i < QM_STR_CAP; ++i) if (i < s.m_len) h = 31u * h + s.m_d[i];
    return h;
}

template<typename K, typename V, int CAP = QM_HASH_CAP> class QHash
{
public:
    int m_n;
    K m_k[CAP];
    V m_v[CAP];
    struct const_iterator {
        const QHash *h; int i;
        const K &key() const { return h->m_k[i]; }
        const V &value() const { return h->m_v[i]; }
        const V &operator*() const { return h->m_v[i]; }
        const V *operator->() const { return &h->m_v[i]; }
        const_iterator &operator++() { ++i; return *this; }
        bool operator==(const const_iterator &o) const { return i == o.i; }
        bool operator!=(const const_iterator &o) const { return i != o.i; }
    };
    struct iterator {
        QHash *h; int i;
        const K &key() const { return h->m_k[i]; }
        V &value() const { return h->m_v[i]; }
        V &operator*() const { return h->m_v[i]; }
        V *operator->() const { return &h->m_v[i]; }
        iterator &operator++() { ++i; return *this; }
        bool operator==(const iterator &o) const { return i == o.i; }
        bool operator!=(const iterator &o) const { return i != o.i; }
        operator const_iterator() const { return const_iterator { h, i }; }
    };
    QHash() : m_n(0) { }
    QHash(const QHash &o) : m_n(0) { copyFrom(o); }
    QHash &operator=(const QHash &o) { copyFrom(o); return *this; }
    QHash(std::initializer_list<std::pair<K, V>> l) : m_n(0) { for (const auto &p : l) insert(p.first, p.second); }
    void copyFrom(const QHash &o) { for (int i = 0; i < CAP; ++i) if (i < o.m_n) { m_k[i] = o.m_k[i]; m_v[i] = o.m_v[i]; } m_n = o.m_n; }
    int size() const { return m_n; }
    int count() const { return m_n; }
    bool isEmpty() const { return m_n == 0; }
    void clear() { m_n = 0; }
    int idx(const K &k) const { int r = -1; for (int i = 0; i < CAP; ++i) if (r < 0 && i < m_n && m_k[i] == k) r = i; return r; }
    bool contains(const K &k) const { return idx(k) >= 0; }
    // all element accesses use constant indices under guards (see QList::append)
    iterator insert(const K &k, const V &v)
    {
        int i = idx(k);
        if (i < 0) { QM_LIMIT(m_n < CAP); i = m_n; for (int j = 0; j < CAP; ++j) if (j == i) m_k[j] = k; ++m_n; }
        for (int j = 0; j < CAP; ++j) if (j == i) m_v[j] = v;
        return iterator { this, i };
    }
    void insert(const QHash &o) { for (int i = 0; i < CAP; ++i) if (i < o.m_n) insert(o.m_k[i], o.m_v[i]); }
    QHash &unite(const QHash &o) { insert(o); return *this; }
    const V value(const K &k) const { V r = V(); for (int i = 0; i < CAP; ++i) if (i < m_n && m_k[i] == k) r = m_v[i]; return r; }
    const V value(const K &k, const V &def) const { V r = def; for (int i = 0; i < CAP; ++i) if (i < m_n && m_k[i] == k) r = m_v[i]; return r; }
    V &operator[](const K &k) { int i = idx(k); if (i < 0) { QM_LIMIT(m_n < CAP); i = m_n++; m_k[i] = k; m_v[i] = V(); } return m_v[i]; }
    const V operator[](const K &k) const { return value(k); }
    int remove(const K &k)
    {
        int i = idx(k);
        if (i < 0) return 0;
        for (int j = 0; j < CAP - 1; ++j) if (j >= i && j < m_n - 1) { m_k[j] = m_k[j + 1]; m_v[j] = m_v[j + 1]; }
        --m_n;
        return 1;
    }
    iterator begin() { return iterator { this, 0 }; }
    iterator end() { return iterator { this, m_n }; }
    const_iterator begin() const { return const_iterator { this, 0 }; }
    const_iterator end() const { return const_iterator { this, m_n }; }
    const_iterator cbegin() const { return const_iterator { this, 0 }; }
    const_iterator cend() const { return const_iterator { this, m_n }; }
    const_iterator constBegin() const { return cbegin(); }
    const_iterator constEnd() const { return cend(); }
    iterator find(const K &k) { int i = idx(k); return iterator { this, i < 0 ? m_n : i }; }
    const_iterator find(const K &k) const { int i = idx(k); return const_iterator { this, i < 0 ? m_n : i }; }
    const_iterator constFind(const K &k) const { return find(k); }
    QList<K> keys() const { QList<K> l; for (int i = 0; i < CAP; ++i) if (i < m_n) l.append(m_k[i]); return l; }
    bool operator==(const QHash &o) const
    {
        bool r = m_n == o.m_n;
        for (int i = 0; i < CAP; ++i) if (i < m_n) { V ov = o.value(m_k[i]); if (!o.contains(m_k[i]) || !(m_v[i] == ov)) r = false; }
        return r;
    }
    bool operator!=(const QHash &o) const { return !(*this == o); }
};
template<typename K, typename V> using QMap = QHash<K, V>;

template<typename T, int CAP = 6> class QSet
{
public:
    int m_n;
    T m_a[CAP];
    QSet() : m_n(0) { }
    QSet(std::initializer_list<T> l) : m_n(0) { for (const T &v : l) insert(v); }
    bool contains(const T &v) const { bool r = false; for (int i = 0; i < CAP; ++i) if (i < m_n && m_a[i] == v) r = true; return r; }
    void insert(const T &v) { if (!contains(v)) { QM_LIMIT(m_n < CAP); m_a[m_n++] = v; } }
    int size() const { return m_n; }
    bool isEmpty() const { return m_n == 0; }
};

template<typename A, typename B> using QPair = std::pair<A, B>;
template<typename A, typename B> QPair<A, B> qMakePair(const A &a, const B &b) { return QPair<A, B>(a, b); }

// ---------------------------------------------------------------- QDate / QTime / QDateTime (virtual clock)
// Time is (day number, millisecond of day).  The wall clock is harness-controlled: qm_clock_day/qm_clock_ms.
// toString(): the only exact format is "yyyy-MM-dd" (needed for file names) inside the window
// 2024-05-10 + [0..15]; every other format is an opaque single private-use code unit (Qt's text is assumed).
inline int qm_clock_day = 0;     // days since 2024-05-10
inline int qm_clock_ms = 0;
#define QM_DAY_INVALID (-100000)
class QDate
{
public:
    int m_day;
    QDate() : m_day(QM_DAY_INVALID) { }
    explicit QDate(int day, bool) : m_day(day) { }
    // user-provided copy operations: member-wise typed copies (a trivially copyable small struct is returned coerced into
    // integers and copied with a byte-wise memcpy, which CBMC does not constant-propagate)
    QDate(const QDate &o) : m_day(o.m_day) { }
    QDate &operator=(const QDate &o) { m_day = o.m_day; return *this; }
    bool isValid() const { return m_day != QM_DAY_INVALID; }
    bool isNull() const { return !isValid(); }
    static QDate currentDate() { return QDate(qm_clock_day, true); }
    QDate addDays(qint64 n) const { return isValid() ? QDate(m_day + int(n), true) : QDate(); }
    QString toString(const QString &format) const
    {
        if (!isValid()) return QString();
        if (format == QLatin1String("yyyy-MM-dd")) {
            QM_LIMIT(m_day >= 0 && m_day <= 15);
            QString r = QString::fromLatin1("2024-05-");
            r += QChar(ushort(m_day < 10 ? '1' : '2'));
            r += QChar(ushort('0' + (m_day < 10 ? m_day : m_day - 10)));
            return r;
        }
        return QString(QChar(ushort(0xE002)));
    }
    QString toString(Qt::DateFormat = Qt::TextDate) const { return QString(QChar(ushort(0xE002))); }
};
inline bool operator==(const QDate &a, const QDate &b) { return a.m_day == b.m_day; }
inline bool operator!=(const QDate &a, const QDate &b) { return a.m_day != b.m_day; }
inline bool operator<(const QDate &a, const QDate &b) { return a.m_day < b.m_day; }

class QDateTime
{
public:
    int m_day;
    int m_ms;
    bool m_utc;
    QDateTime() : m_day(QM_DAY_INVALID), m_ms(0), m_utc(false) { }
    QDateTime(int day, int ms) : m_day(day), m_ms(ms), m_utc(false) { }
    QDateTime(const QDateTime &o) : m_day(o.m_day), m_ms(o.m_ms), m_utc(o.m_utc) { }       // see QDate
    QDateTime &operator=(const QDateTime &o) { m_day = o.m_day; m_ms = o.m_ms; m_utc = o.m_utc; return *this; }
    bool isValid() const { return m_day != QM_DAY_INVALID; }
    bool isNull() const { return !isValid(); }
    static QDateTime currentDateTime() { return QDateTime(qm_clock_day, qm_clock_ms); }
    static QDateTime currentDateTimeUtc() { QDateTime t(qm_clock_day, qm_clock_ms); t.m_utc = true; return t; }
    QDate date() const { return isValid() ? QDate(m_day, true) : QDate(); }
    QDateTime toUTC() const { QDateTime t(*this); t.m_utc = true; return t; }   // assumption: offset handling is Qt's
    QDateTime addDays(qint64 n) const { QDateTime t(*this); if (isValid()) t.m_day += int(n); return t; }
    QDateTime addSecs(qint64 s) const { QDateTime t(*this); t.m_ms += int(s) * 1000; return t; }   // model: no day carry
    qint64 toMSecsSinceEpoch() const { return qint64(m_day) * 86400000LL + m_ms; }
    // opaque rendering: U+E010 + (utc?1:0) for ISODate, U+E020 for custom formats
    QString toString(Qt::DateFormat f = Qt::TextDate) const { return QString(QChar(ushort((f == Qt::ISODate ? 0xE010 : 0xE018) + (m_utc ? 1 : 0)))); }
    QString toString(const QString &) const { return QString(QChar(ushort(0xE020))); }
};
inline bool operator==(const QDateTime &a, const QDateTime &b) { return a.m_day == b.m_day && a.m_ms == b.m_ms; }
inline bool operator!=(const QDateTime &a, const QDateTime &b) { return !(a == b); }
inline bool operator<(const QDateTime &a, const QDateTime &b) { return a.m_day < b.m_day || (a.m_day == b.m_day && a.m_ms < b.m_ms); }

// ---------------------------------------------------------------- QVariant (tagged value)
class QVariant;
typedef QHash<QString, QVariant> QVariantHash;
typedef QHash<QString, QVariant> QVariantMap;
class QVariant
{
public:
    enum Type { Invalid = 0, Bool = 1, Int = 2, UInt = 3, LongLong = 4, ULongLong = 5, Double = 6, String = 10, ByteArray = 12, DateTime = 16, List = 9, Map = 8, Opaque = 99 };
    int m_t;
    qlonglong m_i;     // Bool/Int/UInt/LongLong/ULongLong payload; DateTime: day; Opaque/List/Map: token id
    int m_j;           // DateTime: ms
    QString m_s;       // String payload (ByteArray payload widened)
    QVariant() : m_t(Invalid), m_i(0), m_j(0) { }
    QVariant(const QVariant &o) : m_t(o.m_t), m_i(o.m_i), m_j(o.m_j), m_s(o.m_s) { }
    QVariant &operator=(const QVariant &o) { m_t = o.m_t; m_i = o.m_i; m_j = o.m_j; m_s = o.m_s; return *this; }
    QVariant(bool b) : m_t(Bool), m_i(b), m_j(0) { }
    QVariant(int v) : m_t(Int), m_i(v), m_j(0) { }
    QVariant(uint v) : m_t(UInt), m_i(v), m_j(0) { }
    QVariant(qlonglong v) : m_t(LongLong), m_i(v), m_j(0) { }
    QVariant(qulonglong v) : m_t(ULongLong), m_i(qlonglong(v)), m_j(0) { }
    QVariant(double) : m_t(Double), m_i(0), m_j(0) { }
    QVariant(const QString &s) : m_t(String), m_i(0), m_j(0), m_s(s) { }
    QVariant(const char *s) : m_t(String), m_i(0), m_j(0), m_s(QString::fromUtf8(s)) { }
    QVariant(QLatin1String s) : m_t(String), m_i(0), m_j(0), m_s(s) { }
    QVariant(const QByteArray &a) : m_t(ByteArray), m_i(0), m_j(0), m_s(QString::fromLatin1(a)) { }
    QVariant(const QDateTime &d) : m_t(DateTime), m_i(d.m_day), m_j(d.m_ms) { }
    static QVariant opaque(int kind, int id) { QVariant v; v.m_t = kind; v.m_i = id; return v; }   // lists/maps as tokens
    bool isValid() const { return m_t != Invalid; }
    bool isNull() const { return m_t == Invalid || (m_t == String && m_s.isNull()); }
    int type() const { return m_t; }
    int userType() const { return m_t; }
    QString toString() const
    {
        switch (m_t) {
        case String: case ByteArray: return m_s;
        case Bool: return m_i ? QString::fromLatin1("true") : QString::fromLatin1("false");
        case Int: case LongLong: return QString::number(qlonglong(m_i));
        case UInt: case ULongLong: return QString::number(qulonglong(m_i));
        case DateTime: return QDateTime(int(m_i), m_j).toString(Qt::ISODate);
        case Double: return QString::number(0.0);
        default: return QString();
        }
    }
    int toInt(bool *ok = nullptr) const
    {
        if (ok) *ok = true;
        switch (m_t) {
        case Bool: case Int: case UInt: case LongLong: case ULongLong: return int(m_i);
        case String: case ByteArray: return m_s.toInt(ok);
        default: if (ok) *ok = false; return 0;
        }
    }
    qlonglong toLongLong(bool *ok = nullptr) const { if (m_t == String) return m_s.toLongLong(ok); if (ok) *ok = isValid(); return m_i; }
    qulonglong toULongLong(bool *ok = nullptr) const { return qulonglong(toLongLong(ok)); }
    uint toUInt(bool *ok = nullptr) const { return uint(toLongLong(ok)); }
    bool toBool() const
    {
        switch (m_t) {
        case Bool: case Int: case UInt: case LongLong: case ULongLong: return m_i != 0;
        case String: case ByteArray: {
            QString l = m_s.toLower();
            return !(l.isEmpty() || l == QLatin1String("0") || l == QLatin1String("false"));
        }
        default: return false;
        }
    }
    QDateTime toDateTime() const { return m_t == DateTime ? QDateTime(int(m_i), m_j) : QDateTime(); }
    bool operator==(const QVariant &o) const { return m_t == o.m_t && m_i == o.m_i && m_j == o.m_j && m_s == o.m_s && m_s.m_null == o.m_s.m_null; }
    bool operator!=(const QVariant &o) const { return !(*this == o); }
    template<typename T> static QVariant fromValue(const T &v) { return QVariant(v); }
};
#define Q_DECLARE_METATYPE(T)
template<typename T> inline int qRegisterMetaType(const char *) { return 1; }
template<typename T> inline int qRegisterMetaType() { return 1; }

// ---------------------------------------------------------------- smart pointers (no reference counting: objects leak;
// lifetime of shared handlers is not a subject of any property except C04's worker, which is a raw pointer)
template<typename T> class QSharedPointer
{
public:
    T *m_p;
    QSharedPointer() : m_p(nullptr) { }
    QSharedPointer(std::nullptr_t) : m_p(nullptr) { }
    explicit QSharedPointer(T *p) : m_p(p) { }
    template<typename D> QSharedPointer(T *p, D) : m_p(p) { }
    QSharedPointer(const QSharedPointer &o) : m_p(o.m_p) { }
    template<typename X, typename = typename std::enable_if<std::is_convertible<X *, T *>::value>::type>
    QSharedPointer(const QSharedPointer<X> &o) : m_p(o.m_p) { }
    QSharedPointer &operator=(const QSharedPointer &o) { m_p = o.m_p; return *this; }
    template<typename X> QSharedPointer &operator=(const QSharedPointer<X> &o) { m_p = o.m_p; return *this; }
    template<typename... Args> static QSharedPointer create(Args &&...args) { return QSharedPointer(new T(std::forward<Args>(args)...)); }
    T *data() const { return m_p; }
    T *get() const { return m_p; }
    T *operator->() const { QM_ASSERT(m_p != nullptr, "QSharedPointer::operator-> on null pointer"); return m_p; }
    T &operator*() const { QM_ASSERT(m_p != nullptr, "QSharedPointer::operator* on null pointer"); return *m_p; }
    bool isNull() const { return m_p == nullptr; }
    explicit operator bool() const { return m_p != nullptr; }
    bool operator!() const { return m_p == nullptr; }
    void reset() { m_p = nullptr; }
    void reset(T *p) { m_p = p; }
    void clear() { m_p = nullptr; }
    template<typename X> QSharedPointer<X> dynamicCast() const { return QSharedPointer<X>(dynamic_cast<X *>(m_p)); }
    template<typename X> QSharedPointer<X> staticCast() const { return QSharedPointer<X>(static_cast<X *>(m_p)); }
    template<typename X> QSharedPointer<X> objectCast() const { return QSharedPointer<X>(dynamic_cast<X *>(m_p)); }
    template<typename X> QSharedPointer<X> constCast() const { return QSharedPointer<X>(const_cast<X *>(m_p)); }
};
template<typename A, typename B> inline bool operator==(const QSharedPointer<A> &a, const QSharedPointer<B> &b) { return a.m_p == b.m_p; }
template<typename A, typename B> inline bool operator!=(const QSharedPointer<A> &a, const QSharedPointer<B> &b) { return a.m_p != b.m_p; }
template<typename A> inline bool operator==(const QSharedPointer<A> &a, std::nullptr_t) { return a.m_p == nullptr; }
template<typename A> inline bool operator!=(const QSharedPointer<A> &a, std::nullptr_t) { return a.m_p != nullptr; }
template<typename X, typename T> QSharedPointer<X> qSharedPointerDynamicCast(const QSharedPointer<T> &p) { return p.template dynamicCast<X>(); }
template<typename X, typename T> QSharedPointer<X> qSharedPointerCast(const QSharedPointer<T> &p) { return p.template staticCast<X>(); }

template<typename T> class QScopedPointer
{
public:
    T *m_p;
    explicit QScopedPointer(T *p = nullptr) : m_p(p) { }
    ~QScopedPointer() { delete m_p; }
    T *data() const { return m_p; }
    T *get() const { return m_p; }
    T *operator->() const { QM_ASSERT(m_p != nullptr, "QScopedPointer::operator-> on null pointer"); return m_p; }
    T &operator*() const { QM_ASSERT(m_p != nullptr, "QScopedPointer::operator* on null pointer"); return *m_p; }
    bool isNull() const { return !m_p; }
    explicit operator bool() const { return m_p != nullptr; }
    bool operator!() const { return !m_p; }
    void reset(T *p = nullptr) { if (m_p != p) { T *o = m_p; m_p = p; delete o; } }
    T *take() { T *o = m_p; m_p = nullptr; return o; }
private:
    QScopedPointer(const QScopedPointer &) = delete;
    QScopedPointer &operator=(const QScopedPointer &) = delete;
};
