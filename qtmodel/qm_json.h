// qm_json.h -- abstract model of QJsonValue / QJsonObject / QJsonArray / QJsonDocument and QUuid.
// JSON *text* is Qt's business (its writer and parser are binary-only here): toJson() records the object it was given
// and returns an opaque token; fromJson() of that token gives the object back (contract: Qt's writer emits valid JSON that
// Qt's parser reads back to an equal object; compact output contains no line break).  What the properties can and do
// check is the OBJECT that the formatter hands to the serializer.
#pragma once
#include "qm_core.h"
#ifndef QM_JSON_CAP
#define QM_JSON_CAP 12
#endif
#ifndef QM_JSON_POOL
#define QM_JSON_POOL 8
#endif
class QJsonObject; class QJsonArray;
class QJsonValue
{
public:
    enum Type { Null = 0, Bool = 1, Double = 2, String = 3, Array = 4, Object = 5, Undefined = 0x80 };
    int m_t; qlonglong m_i; QString m_s; int m_ref;     // m_ref: token id of an opaque list/map value
    const QJsonObject *m_obj; const QJsonArray *m_arr;   // nested containers: own heap objects (small root objects for the solver)
    QJsonValue(Type t = Null) : m_t(t), m_i(0), m_ref(-1), m_obj(nullptr), m_arr(nullptr) { }
    QJsonValue(bool b) : m_t(Bool), m_i(b), m_ref(-1), m_obj(nullptr), m_arr(nullptr) { }
    QJsonValue(int v) : m_t(Double), m_i(v), m_ref(-1), m_obj(nullptr), m_arr(nullptr) { }
    QJsonValue(qint64 v) : m_t(Double), m_i(v), m_ref(-1), m_obj(nullptr), m_arr(nullptr) { }
    QJsonValue(double) : m_t(Double), m_i(0), m_ref(-1), m_obj(nullptr), m_arr(nullptr) { QM_LIMIT(false); }
    QJsonValue(const QString &s) : m_t(String), m_i(0), m_s(s), m_ref(-1), m_obj(nullptr), m_arr(nullptr) { }
    QJsonValue(QLatin1String s) : m_t(String), m_i(0), m_s(s), m_ref(-1), m_obj(nullptr), m_arr(nullptr) { }
    QJsonValue(const char *s) : m_t(String), m_i(0), m_s(QString::fromUtf8(s)), m_ref(-1), m_obj(nullptr), m_arr(nullptr) { }
    inline QJsonValue(const QJsonObject &o);
    inline QJsonValue(const QJsonArray &a);
    Type type() const { return Type(m_t); }
    bool isNull() const { return m_t == Null; } bool isBool() const { return m_t == Bool; } bool isDouble() const { return m_t == Double; }
    bool isString() const { return m_t == String; } bool isArray() const { return m_t == Array; } bool isObject() const { return m_t == Object; }
    bool isUndefined() const { return m_t == Undefined; }
    bool toBool(bool d = false) const { return m_t == Bool ? m_i != 0 : d; }
    int toInt(int d = 0) const { return m_t == Double ? int(m_i) : d; }
    QString toString() const { return m_t == String ? m_s : QString(); }
    QString toString(const QString &d) const { return m_t == String ? m_s : d; }
    inline QJsonObject toObject() const;
    inline QJsonArray toArray() const;
    QVariant toVariant() const
    {
        switch (m_t) {
        case Bool: return QVariant(m_i != 0);
        case Double: return QVariant(qlonglong(m_i));
        case String: return QVariant(m_s);
        case Array: return QVariant::opaque(QVariant::List, m_ref);
        case Object: return QVariant::opaque(QVariant::Map, m_ref);
        default: return QVariant();
        }
    }
    static QJsonValue fromVariant(const QVariant &v)
    {
        switch (v.m_t) {
        case QVariant::Invalid: return QJsonValue(Null);
        case QVariant::Bool: return QJsonValue(v.m_i != 0);
        case QVariant::Int: case QVariant::UInt: case QVariant::LongLong: case QVariant::ULongLong: return QJsonValue(qint64(v.m_i));
        case QVariant::String: return QJsonValue(v.m_s);      // a null QString becomes the JSON string "" (observed Qt 5.15.8)
        case QVariant::DateTime: return QJsonValue(QDateTime(int(v.m_i), v.m_j).toString(Qt::ISODateWithMs));
        case QVariant::List: { QJsonValue r(Array); r.m_ref = int(v.m_i); return r; }    // opaque list/map tokens keep their identity
        case QVariant::Map: { QJsonValue r(Object); r.m_ref = int(v.m_i); return r; }
        default: QM_LIMIT(false); return QJsonValue(Null);
        }
    }
    inline bool operator==(const QJsonValue &o) const;
    bool operator!=(const QJsonValue &o) const { return !(*this == o); }
};

class QJsonObject
{
public:
    int m_n; QString m_k[QM_JSON_CAP]; QJsonValue m_v[QM_JSON_CAP];
    QJsonObject() : m_n(0) { }
    int idx(const QString &k) const { int r = -1; for (int i = 0; i < QM_JSON_CAP; ++i) if (r < 0 && i < m_n && m_k[i] == k) r = i; return r; }
    void insert(const QString &k, const QJsonValue &v)
    {
        if (v.m_t == QJsonValue::Undefined) { remove(k); return; }
        int i = idx(k);
        if (i < 0) { QM_LIMIT(m_n < QM_JSON_CAP); i = m_n; for (int j = 0; j < QM_JSON_CAP; ++j) if (j == i) m_k[j] = k; ++m_n; }
        for (int j = 0; j < QM_JSON_CAP; ++j) if (j == i) m_v[j] = v;
    }
    void remove(const QString &k)
    {
        int i = idx(k);
        if (i < 0) return;
        for (int j = 0; j < QM_JSON_CAP - 1; ++j) if (j >= i && j < m_n - 1) { m_k[j] = m_k[j + 1]; m_v[j] = m_v[j + 1]; }
        --m_n;
    }
    QJsonValue value(const QString &k) const { QJsonValue r(QJsonValue::Undefined); for (int i = 0; i < QM_JSON_CAP; ++i) if (i < m_n && m_k[i] == k) r = m_v[i]; return r; }
    QJsonValue value(QLatin1String k) const { return value(QString(k)); }
    bool contains(const QString &k) const { return idx(k) >= 0; }
    bool contains(QLatin1String k) const { return idx(QString(k)) >= 0; }
    int size() const { return m_n; } int count() const { return m_n; } int length() const { return m_n; }
    bool isEmpty() const { return m_n == 0; }
    QStringList keys() const { QStringList l; for (int i = 0; i < QM_JSON_CAP; ++i) if (i < m_n) l.append(m_k[i]); return l; }
    struct Ref {
        QJsonObject *o; QString k;
        Ref &operator=(const QJsonValue &v) { o->insert(k, v); return *this; }
        Ref &operator=(const Ref &r) { o->insert(k, r.o->value(r.k)); return *this; }
        operator QJsonValue() const { return o->value(k); }
        QString toString() const { return o->value(k).toString(); }
        int toInt() const { return o->value(k).toInt(); }
        inline QJsonObject toObject() const;
    };
    Ref operator[](const QString &k) { return Ref { this, k }; }
    Ref operator[](QLatin1String k) { return Ref { this, QString(k) }; }
    QJsonValue operator[](const QString &k) const { return value(k); }
    bool operator==(const QJsonObject &o) const
    {
        bool r = m_n == o.m_n;
        for (int i = 0; i < QM_JSON_CAP; ++i) if (i < m_n) { if (!(o.value(m_k[i]) == m_v[i])) r = false; }
        return r;
    }
};
class QJsonArray
{
public:
    int m_n; QJsonValue m_a[4];
    QJsonArray() : m_n(0) { }
    void append(const QJsonValue &v) { QM_LIMIT(m_n < 4); for (int j = 0; j < 4; ++j) if (j == m_n) m_a[j] = v; ++m_n; }
    int size() const { return m_n; } int count() const { return m_n; } bool isEmpty() const { return m_n == 0; }
    QJsonValue at(int i) const { QJsonValue r(QJsonValue::Undefined); for (int j = 0; j < 4; ++j) if (j == i && j < m_n) r = m_a[j]; return r; }
    QJsonValue operator[](int i) const { return at(i); }
};
inline QJsonValue::QJsonValue(const QJsonObject &o) : m_t(Object), m_i(0), m_ref(-1), m_obj(new QJsonObject(o)), m_arr(nullptr) { }
inline QJsonValue::QJsonValue(const QJsonArray &a) : m_t(Array), m_i(0), m_ref(-1), m_obj(nullptr), m_arr(new QJsonArray(a)) { }
inline QJsonObject QJsonValue::toObject() const { if (m_t == Object && m_obj) return *m_obj; return QJsonObject(); }
inline QJsonArray QJsonValue::toArray() const { if (m_t == Array && m_arr) return *m_arr; return QJsonArray(); }
inline QJsonObject QJsonObject::Ref::toObject() const { return o->value(k).toObject(); }

inline bool QJsonValue::operator==(const QJsonValue &o) const
{
    if (m_t != o.m_t || m_i != o.m_i || !(m_s == o.m_s) || m_ref != o.m_ref) return false;
    if (m_t == Object && m_obj && o.m_obj) return *m_obj == *o.m_obj;
    return true;
}
inline QJsonObject qm_json_last_doc; inline int qm_json_last_format = -1; inline int qm_json_docs = 0;
class QJsonDocument
{
public:
    enum JsonFormat { Indented = 0, Compact = 1 };
    QJsonObject m_o; bool m_null;
    QJsonDocument() : m_null(true) { }
    explicit QJsonDocument(const QJsonObject &o) : m_o(o), m_null(false) { }
    QJsonObject object() const { return m_o; }
    bool isNull() const { return m_null; } bool isObject() const { return !m_null; }
    QByteArray toJson(JsonFormat f = Indented) const
    {
        qm_json_last_doc = m_o; qm_json_last_format = int(f); ++qm_json_docs;
        return f == Compact ? QByteArray("J") : QByteArray("J\n");     // opaque token; compact = no line break (Qt's contract)
    }
    static QJsonDocument fromJson(const QByteArray &b)
    {
        // only the text produced by the last toJson() can be read back
        QM_LIMIT(qm_json_docs > 0 && (b == "J" || b == "J\n"));
        return QJsonDocument(qm_json_last_doc);
    }
};

inline int qm_uuid_counter = 0;
class QUuid
{
public:
    enum StringFormat { WithBraces = 0, WithoutBraces = 1, Id128 = 3 };
    int m_id;
    QUuid() : m_id(0) { }
    static QUuid createUuid() { QUuid u; u.m_id = ++qm_uuid_counter; return u; }     // fresh per call (Qt's contract: random 122 bits)
    // opaque rendering: U+E100 + format, then the id as a private-use unit
    QString toString(StringFormat f = WithBraces) const { QString r(QChar(ushort(0xE100 + int(f)))); r.append(QChar(ushort(0xE200 + (m_id & 0xff)))); return r; }
    bool isNull() const { return m_id == 0; }
};
