#pragma once
class QRegularExpressionMatch
{
public:
    bool m_has = false;
    bool hasMatch() const { return m_has; }
    QString captured(int) const { return QString(); }
};
class QRegularExpression
{
public:
    QString m_pattern;
    QRegularExpression() { }
    QRegularExpression(const QString &p) : m_pattern(p) { }
    QRegularExpressionMatch match(const QString &) const { QM_LIMIT(false); return QRegularExpressionMatch(); }
    static QString escape(const QString &s) { return s; }
    QString pattern() const { return m_pattern; }
    bool isValid() const { return true; }
};
inline QString &QString::remove(const QRegularExpression &) { QM_LIMIT(false); return *this; }
