// qm_regex_impl.h -- model of QRegularExpression for the regex fragment used by qtlogger.
//
// A pattern is compiled into a LINEAR program of segments (no recursion):
//   ATOM   one character class with a quantifier {min,max}, greedy or lazy
//   ALT    (w1|w2|...) of literal words, capturing or not
//   GOPEN / GCLOSE   one level of grouping (capturing or not), optionally quantified by '?'
// plus ^ / $ anchors at the ends.  Matching is a backward dynamic programme  can[i][p] = "segments i.. can match the
// subject from position p to an accepting end", followed by a forward pass that picks, segment by segment, the first
// choice in PCRE's preference order from which acceptance is still possible (greedy: longest first, lazy: shortest first,
// alternatives in order, optional group: present first).  For this fragment that is exactly the match a backtracking
// engine returns.  All loops have constant bounds (segments x positions), so for a concrete pattern the structure
// is concrete and the encoding is |segments| x |subject|^2 small boolean terms.
// Anything outside the fragment is QM_LIMIT (path cut, never a wrong answer).  Validated against the real
// QRegularExpression by conformance/ on every expression that appears in the repository.
#pragma once

#ifndef QM_RX_MAXSEG
#define QM_RX_MAXSEG 26
#endif
#define QM_RX_MAXWORDS 6
#define QM_RX_MAXCAP 4

enum { RX_ATOM = 0, RX_ALT = 1, RX_GOPEN = 2, RX_GCLOSE = 3, RX_STR = 4 };
#define QM_RX_STRMAX 20
enum { RXC_LIT = 0, RXC_ANY = 1, RXC_DIGIT = 2, RXC_SPACE = 3, RXC_NSPACE = 4, RXC_WORD = 5, RXC_NDIGIT = 6, RXC_NWORD = 7, RXC_BRACKET = 8 };

struct RxSeg {
    unsigned char type;
    unsigned char cls;
    bool neg;               // bracket negation
    bool lazy;
    bool opt;               // GOPEN: the group is optional ( )?
    ushort ch;              // literal
    ushort lo[4], hi[4];    // bracket items (ranges)
    int nitems;
    int min, max;           // max < 0: unbounded
    int cap;                // capture index (>0) or 0
    int jump;               // GOPEN: index of the segment after the matching GCLOSE
    int w0, w1;             // ALT: words [w0,w1)
    ushort str[QM_RX_STRMAX]; int slen;   // STR: run of unquantified literal characters
};

struct RxProg {
    bool valid;
    bool anchorStart, anchorEnd;
    int n;                  // number of segments
    int ncap;
    RxSeg seg[QM_RX_MAXSEG];
    QString words[QM_RX_MAXWORDS];
    int nwords;
};

static inline bool rx_cls_match(const RxSeg &s, ushort c)
{
    switch (s.cls) {
    case RXC_LIT: return c == s.ch;
    case RXC_ANY: return c != '\n';
    case RXC_DIGIT: return c >= '0' && c <= '9';
    case RXC_NDIGIT: return !(c >= '0' && c <= '9');
    case RXC_SPACE: return c == ' ' || (c >= 9 && c <= 13);
    case RXC_NSPACE: return !(c == ' ' || (c >= 9 && c <= 13));
    case RXC_WORD: return (c >= '0' && c <= '9') || (c >= 'a' && c <= 'z') || (c >= 'A' && c <= 'Z') || c == '_';
    case RXC_NWORD: return !((c >= '0' && c <= '9') || (c >= 'a' && c <= 'z') || (c >= 'A' && c <= 'Z') || c == '_');
    default: {
        bool in = false;
        for (int k = 0; k < 4; ++k) if (k < s.nitems && c >= s.lo[k] && c <= s.hi[k]) in = true;
        return in != s.neg;
    }
    }
}

static inline bool rx_is_special(ushort c)
{
    return c == '\\' || c == '^' || c == '$' || c == '.' || c == '|' || c == '?' || c == '*' || c == '+' || c == '(' || c == ')' || c == '[' || c == '{';
}

// escape handling shared by atoms and ALT words: returns class for "\x"
static inline void rx_escape_class(ushort e, RxSeg &s)
{
    switch (e) {
    case 'd': s.cls = RXC_DIGIT; break;
    case 'D': s.cls = RXC_NDIGIT; break;
    case 's': s.cls = RXC_SPACE; break;
    case 'S': s.cls = RXC_NSPACE; break;
    case 'w': s.cls = RXC_WORD; break;
    case 'W': s.cls = RXC_NWORD; break;
    default:
        // \. \- \* ... : a non-alphanumeric escaped character stands for itself; alphanumeric escapes other than the
        // classes above (\b \A \n \x..) are outside the model
        QM_LIMIT(!((e >= 'a' && e <= 'z') || (e >= 'A' && e <= 'Z') || (e >= '0' && e <= '9')));
        s.cls = RXC_LIT; s.ch = e; break;
    }
}

struct RxPat { const ushort *m_d; int m_len; };
static inline void rx_compile(const RxPat &pat, int LB, RxProg &pr)
{
    pr.valid = true; pr.anchorStart = false; pr.anchorEnd = false; pr.n = 0; pr.ncap = 0; pr.nwords = 0;
    const int L = pat.m_len;
    int pos = 0;
    int openSeg = -1;       // index of the open (single level) group, or -1
    if (L > 0 && pat.m_d[0] == '^') { pr.anchorStart = true; pos = 1; }
    for (int step = 0; step < LB + 1; ++step) {
        if (pos >= L) break;
        ushort c = pat.m_d[pos];
        if (c == '$' && pos == L - 1) { pr.anchorEnd = true; pos++; break; }
        QM_LIMIT(pr.n < QM_RX_MAXSEG);
        RxSeg s; s.type = RX_ATOM; s.cls = RXC_LIT; s.neg = false; s.lazy = false; s.opt = false; s.ch = 0; s.nitems = 0; s.min = 1; s.max = 1; s.cap = 0; s.jump = 0; s.w0 = 0; s.w1 = 0; s.slen = 0;
        bool quantifiable = true;
        if (c == '(') {
            int q = pos + 1; bool capturing = true;
            if (q + 1 < L && pat.m_d[q] == '?' && pat.m_d[q + 1] == ':') { capturing = false; q += 2; }
            else QM_LIMIT(!(q < L && pat.m_d[q] == '?'));       // lookaround / named groups / options: outside the model
            // pure alternation of literal words?
            int close = -1; bool pure = true; bool bar = false;
            for (int i = 0; i < LB; ++i) if (i >= q && i < L && close < 0) {
                ushort d = pat.m_d[i];
                if (d == ')') close = i;
                else if (d == '|') bar = true;
                else if (d == '\\') { pure = false; }
                else if (rx_is_special(d)) pure = false;
            }
            if (close >= 0 && pure && bar) {
                s.type = RX_ALT; s.w0 = pr.nwords;
                QString w; w.m_null = false;
                for (int i = 0; i < LB; ++i) if (i >= q && i <= close) {
                    ushort d = pat.m_d[i];
                    if (d == '|' || i == close) { QM_LIMIT(pr.nwords < QM_RX_MAXWORDS); for (int j = 0; j < QM_RX_MAXWORDS; ++j) if (j == pr.nwords) pr.words[j] = w; pr.nwords++; w.m_len = 0; }
                    else w.append(QChar(d));
                }
                s.w1 = pr.nwords;
                if (capturing) s.cap = ++pr.ncap;
                pos = close + 1;
                quantifiable = false;
                QM_LIMIT(!(pos < L && (pat.m_d[pos] == '?' || pat.m_d[pos] == '*' || pat.m_d[pos] == '+' || pat.m_d[pos] == '{')));
            } else {
                QM_LIMIT(openSeg < 0);          // nested groups (other than a word alternation) are outside the model
                s.type = RX_GOPEN;
                if (capturing) s.cap = ++pr.ncap;
                openSeg = pr.n;
                pos = q;
                quantifiable = false;
            }
        } else if (c == ')') {
            QM_LIMIT(openSeg >= 0);
            s.type = RX_GCLOSE;
            pos++;
            bool optional = false;
            if (pos < L && pat.m_d[pos] == '?') { optional = true; pos++; }
            QM_LIMIT(!(pos < L && (pat.m_d[pos] == '*' || pat.m_d[pos] == '+' || pat.m_d[pos] == '{' || pat.m_d[pos] == '?')));
            for (int j = 0; j < QM_RX_MAXSEG; ++j) if (j == openSeg) { s.cap = pr.seg[j].cap; pr.seg[j].opt = optional; pr.seg[j].jump = pr.n + 1; }
            openSeg = -1;
            quantifiable = false;
        } else if (c == '[') {
            s.cls = RXC_BRACKET;
            int i = pos + 1;
            if (i < L && pat.m_d[i] == '^') { s.neg = true; i++; }
            bool closed = false;
            for (int k = 0; k < 6; ++k) if (!closed) {
                QM_LIMIT(i < L);
                ushort d = pat.m_d[i];
                if (d == ']' && k > 0) { closed = true; i++; }
                else {
                    QM_LIMIT(d != '\\' && d != '[' && k < 4);
                    ushort lo = d, hi = d;
                    if (i + 2 < L && pat.m_d[i + 1] == '-' && pat.m_d[i + 2] != ']') { hi = pat.m_d[i + 2]; i += 3; } else i++;
                    for (int j = 0; j < 4; ++j) if (j == s.nitems) { s.lo[j] = lo; s.hi[j] = hi; }
                    s.nitems++;
                }
            }
            QM_LIMIT(closed);
            pos = i;
        } else if (c == '\\') {
            QM_LIMIT(pos + 1 < L);
            rx_escape_class(pat.m_d[pos + 1], s);
            pos += 2;
        } else if (c == '.') { s.cls = RXC_ANY; pos++; }
        else {
            QM_LIMIT(c != '|' && c != '*' && c != '+' && c != '?' && c != '^' && c != '$');   // '|' at top level, dangling quantifiers, inner anchors: outside the model
            s.cls = RXC_LIT; s.ch = c; pos++;       // includes a '{' that does not start a quantifier (checked below) and '}' ']'
        }
        if (quantifiable && pos < L) {
            ushort qc = pat.m_d[pos];
            bool had = false;
            if (qc == '*') { s.min = 0; s.max = -1; pos++; had = true; }
            else if (qc == '+') { s.min = 1; s.max = -1; pos++; had = true; }
            else if (qc == '?') { s.min = 0; s.max = 1; pos++; had = true; }
            else if (qc == '{' && pos + 2 < L && pat.m_d[pos + 1] >= '0' && pat.m_d[pos + 1] <= '9') {
                // {n} or {n,m} or {n,} with single-digit numbers
                int n1 = pat.m_d[pos + 1] - '0';
                if (pat.m_d[pos + 2] == '}') { s.min = n1; s.max = n1; pos += 3; had = true; }
                else if (pat.m_d[pos + 2] == ',' && pos + 3 < L && pat.m_d[pos + 3] == '}') { s.min = n1; s.max = -1; pos += 4; had = true; }
                else if (pat.m_d[pos + 2] == ',' && pos + 4 < L && pat.m_d[pos + 3] >= '0' && pat.m_d[pos + 3] <= '9' && pat.m_d[pos + 4] == '}') { s.min = n1; s.max = pat.m_d[pos + 3] - '0'; pos += 5; had = true; }
                else QM_LIMIT(false);    // multi-digit counts: outside the model
            }
            if (had && pos < L) {
                if (pat.m_d[pos] == '?') { s.lazy = true; pos++; }
                QM_LIMIT(!(pos < L && (pat.m_d[pos] == '+' || pat.m_d[pos] == '*' || (pat.m_d[pos] == '?' && !s.lazy))));   // possessive / stacked quantifiers
            }
        }
        if (s.type == RX_ATOM && s.cls == RXC_LIT && s.min == 1 && s.max == 1) {
            // an unquantified literal joins the preceding literal run
            bool merged = false;
            for (int j = 0; j < QM_RX_MAXSEG; ++j) if (j == pr.n - 1 && pr.seg[j].type == RX_STR && pr.seg[j].slen < QM_RX_STRMAX) {
                for (int k = 0; k < QM_RX_STRMAX; ++k) if (k == pr.seg[j].slen) pr.seg[j].str[k] = s.ch;
                pr.seg[j].slen++; merged = true;
            }
            if (merged) continue;
            s.type = RX_STR; s.str[0] = s.ch; s.slen = 1;
        }
        for (int j = 0; j < QM_RX_MAXSEG; ++j) if (j == pr.n) pr.seg[j] = s;
        pr.n++;
    }
    QM_LIMIT(pos >= L);           // pattern longer than the model can hold
    QM_LIMIT(openSeg < 0);        // unbalanced '(' : PCRE reports an invalid pattern; not modelled
}

struct RxResult {
    bool has;
    int start, end;
    int cs[QM_RX_MAXCAP + 1], ce[QM_RX_MAXCAP + 1];    // capture extents, -1 = did not participate
};

static inline void rx_exec(const RxProg &pr, const QString &subj, int from, RxResult &res)
{
    const int L = subj.m_len;
    res.has = false; res.start = -1; res.end = -1;
    for (int g = 0; g <= QM_RX_MAXCAP; ++g) { res.cs[g] = -1; res.ce[g] = -1; }
    QM_LIMIT(!(pr.anchorEnd && L > 0 && subj.m_d[L - 1] == '\n'));     // '$' before a final newline: not modelled
    // can[i][p]: segments i.. match from p to an accepting end
    bool can[QM_RX_MAXSEG + 1][QM_STR_CAP + 2];
    short run[QM_RX_MAXSEG][QM_STR_CAP + 2];
    for (int p = 0; p <= QM_STR_CAP + 1; ++p) for (int i = 0; i <= QM_RX_MAXSEG; ++i) can[i][p] = false;
    for (int i = QM_RX_MAXSEG; i >= 0; --i) {
        if (i > pr.n) continue;
        if (i == pr.n) { for (int p = 0; p <= QM_STR_CAP; ++p) can[i][p] = p <= L && (!pr.anchorEnd || p == L); continue; }
        const RxSeg &s = pr.seg[i];
        if (s.type == RX_ATOM) {
            run[i][QM_STR_CAP + 1] = 0;
            for (int p = QM_STR_CAP; p >= 0; --p) run[i][p] = (p < L && rx_cls_match(s, subj.m_d[p < QM_STR_CAP ? p : 0])) ? short(1 + run[i][p + 1]) : short(0);
            for (int p = 0; p <= QM_STR_CAP; ++p) {
                bool ok = false;
                for (int k = 0; k + p <= QM_STR_CAP; ++k)
                    if (k >= s.min && (s.max < 0 || k <= s.max) && k <= run[i][p] && can[i + 1][p + k]) ok = true;
                can[i][p] = ok;
            }
        } else if (s.type == RX_ALT) {
            for (int p = 0; p <= QM_STR_CAP; ++p) {
                bool ok = false;
                for (int w = 0; w < QM_RX_MAXWORDS; ++w) if (w >= s.w0 && w < s.w1) {
                    const QString &word = pr.words[w];
                    if (p + word.m_len <= L && subj.matchAt(p, word)) { bool c2 = false; for (int q = 0; q <= QM_STR_CAP; ++q) if (q == p + word.m_len) c2 = can[i + 1][q]; if (c2) ok = true; }
                }
                can[i][p] = ok;
            }
        } else if (s.type == RX_STR) {
            for (int p = 0; p <= QM_STR_CAP; ++p) {
                bool ok = p + s.slen <= L;
                for (int k = 0; k < QM_RX_STRMAX; ++k) if (k < s.slen && ok && subj.m_d[(p + k) < QM_STR_CAP ? (p + k) : 0] != s.str[k]) ok = false;
                bool c2 = false; for (int q = 0; q <= QM_STR_CAP; ++q) if (q == p + s.slen) c2 = can[i + 1][q];
                can[i][p] = ok && c2;
            }
        } else if (s.type == RX_GOPEN) {
            for (int p = 0; p <= QM_STR_CAP; ++p) {
                bool skip = false;
                if (s.opt) for (int j = 0; j <= QM_RX_MAXSEG; ++j) if (j == s.jump) skip = can[j][p];
                can[i][p] = can[i + 1][p] || skip;
            }
        } else {
            for (int p = 0; p <= QM_STR_CAP; ++p) can[i][p] = can[i + 1][p];
        }
    }
    // leftmost start
    int start = -1;
    for (int p = 0; p <= QM_STR_CAP; ++p) if (start < 0 && p >= from && p <= L && can[0][p] && (!pr.anchorStart || p == 0)) start = p;
    if (start < 0) return;
    res.has = true; res.start = start;
    // forward pass in preference order
    int p = start;
    int i = 0;
    for (int step = 0; step < QM_RX_MAXSEG; ++step) {
        if (i >= pr.n) break;
        const RxSeg &s = pr.seg[i];
        if (s.type == RX_ATOM) {
            int chosen = -1;
            if (s.lazy) { for (int k = 0; k <= QM_STR_CAP; ++k) if (chosen < 0 && k >= s.min && (s.max < 0 || k <= s.max) && p + k <= QM_STR_CAP && k <= run[i][p] && can[i + 1][p + k]) chosen = k; }
            else { for (int k = QM_STR_CAP; k >= 0; --k) if (chosen < 0 && k >= s.min && (s.max < 0 || k <= s.max) && p + k <= QM_STR_CAP && k <= run[i][p] && can[i + 1][p + k]) chosen = k; }
            QM_ASSERT(chosen >= 0, "regex model: forward pass lost the match");
            p += chosen; i++;
        } else if (s.type == RX_ALT) {
            int len = -1;
            for (int w = 0; w < QM_RX_MAXWORDS; ++w) if (len < 0 && w >= s.w0 && w < s.w1) {
                const QString &word = pr.words[w];
                if (p + word.m_len <= L && subj.matchAt(p, word) && can[i + 1][p + word.m_len]) len = word.m_len;
            }
            QM_ASSERT(len >= 0, "regex model: forward pass lost the match");
            if (s.cap) for (int g = 0; g <= QM_RX_MAXCAP; ++g) if (g == s.cap) { res.cs[g] = p; res.ce[g] = p + len; }
            p += len; i++;
        } else if (s.type == RX_STR) {
            p += s.slen; i++;
        } else if (s.type == RX_GOPEN) {
            if (can[i + 1][p]) { if (s.cap) for (int g = 0; g <= QM_RX_MAXCAP; ++g) if (g == s.cap) res.cs[g] = p; i++; }
            else i = s.jump;
        } else {
            if (s.cap) for (int g = 0; g <= QM_RX_MAXCAP; ++g) if (g == s.cap) res.ce[g] = p;
            i++;
        }
    }
    res.end = p;
}

class QRegularExpressionMatch
{
public:
    RxResult m_r;
    QString m_subject;
    QRegularExpressionMatch() { m_r.has = false; }
    bool hasMatch() const { return m_r.has; }
    bool isValid() const { return true; }
    int capturedStart(int g = 0) const { if (!m_r.has) return -1; return g == 0 ? m_r.start : ((g <= QM_RX_MAXCAP) ? m_r.cs[g] : -1); }
    int capturedEnd(int g = 0) const { if (!m_r.has) return -1; return g == 0 ? m_r.end : ((g <= QM_RX_MAXCAP) ? m_r.ce[g] : -1); }
    QString captured(int g = 0) const
    {
        if (!m_r.has) return QString();
        int s = capturedStart(g), e = capturedEnd(g);
        if (s < 0 || e < s) return QString();           // group did not participate: null string
        QString r = m_subject.mid(s, e - s);
        r.m_null = false;
        return r;
    }
};

class QRegularExpression
{
public:
    enum PatternOption { NoPatternOption = 0, CaseInsensitiveOption = 1 };
    QString m_pattern;
    RxProg m_prog;
    bool m_special_time;      // filesink.cpp's "(.*)%{time *(.*?)}(.*)": only "no match" is modelled
    QRegularExpression() : m_special_time(false) { m_prog.valid = true; m_prog.n = 0; m_prog.anchorStart = false; m_prog.anchorEnd = false; m_prog.ncap = 0; m_prog.nwords = 0; }
    QRegularExpression(const QString &p, int options = 0) : m_pattern(p), m_special_time(false)
    {
        QM_LIMIT(options == 0);
        if (p == QString::fromLatin1("(.*)%{time *(.*?)}(.*)")) { m_special_time = true; m_prog.valid = true; m_prog.n = 0; return; }
        RxPat rp = { p.m_d, p.m_len };
        rx_compile(rp, QM_STR_CAP, m_prog);
    }
    // a pattern given as a string literal is compiled straight from the literal (it may be longer than QM_STR_CAP)
    template<int N> QRegularExpression(const char (&lit)[N]) : m_special_time(false)
    {
        ushort buf[N];
        for (int i = 0; i < N; ++i) buf[i] = ushort(uchar(lit[i]));
        RxPat rp = { buf, N - 1 };
        rx_compile(rp, N, m_prog);
    }
    QString pattern() const { return m_pattern; }
    bool isValid() const { return true; }
    QRegularExpressionMatch match(const QString &subject, int offset = 0) const
    {
        QRegularExpressionMatch m;
        m.m_subject = subject;
        if (m_special_time) {
            // matches iff the subject contains "%{time" followed (anywhere later) by '}'; captures are not modelled
            int at = subject.indexOf(QString::fromLatin1("%{time"));
            bool hit = at >= 0 && subject.indexOf(QChar('}'), at) >= 0;
            QM_LIMIT(!hit);
            m.m_r.has = false;
            return m;
        }
        rx_exec(m_prog, subject, offset, m.m_r);
        return m;
    }
    static QString escape(const QString &s)
    {
        QString r; r.m_null = s.m_null; if (r.m_null) { r.m_null = false; }
        for (int i = 0; i < QM_STR_CAP; ++i) if (i < s.m_len) {
            ushort c = s.m_d[i];
            if (c == 0) { r.append(QChar('\\')); r.append(QChar('0')); }
            else if (!((c >= 'a' && c <= 'z') || (c >= 'A' && c <= 'Z') || (c >= '0' && c <= '9') || c == '_')) {
                r.append(QChar('\\')); r.append(QChar(c));
                if ((c & 0xfc00) == 0xd800 && i < s.m_len - 1) { r.append(QChar(s.m_d[i + 1])); ++i; }
            } else r.append(QChar(c));
        }
        return r;
    }
};

inline QString &QString::remove(const QRegularExpression &re)
{
    // QString::remove(re) == replace(re, QString()): all non-overlapping leftmost matches
    int from = 0;
    for (int step = 0; step < QM_STR_CAP + 1; ++step) {
        QRegularExpressionMatch m = re.match(*this, from);
        if (!m.hasMatch()) break;
        int s = m.capturedStart(0), e = m.capturedEnd(0);
        QM_LIMIT(e > s);      // empty matches: not modelled
        remove(s, e - s);
        from = s;
    }
    return *this;
}
