// qm_regex_impl.h -- model of QRegularExpression for the regex fragment used by qtlogger.
//
// A pattern is compiled into a LINEAR program of segments (no recursion):
//   ATOM   one character class with a quantifier {min,max}, greedy or lazy
//   ALT    (w1|w2|...) of literal words, capturing or not
//   GOPEN / GCLOSE   one level of grouping (capturing or not), optionally quantified by '?'
// plus ^ / $ anchors at the ends.  Matching is a backward dynamic programme  can[i][p] = "segments i.. can match the
// subject from position p to an accepting end", followed by a forward pass that picks, segment by segment, the first
// choice in PCRE's preference order from which acceptance is still possible (greedy: longest first, lazy: shortest first,
// alternatives in order, optional group: present first).  For this fragment that is exactly the match a backtracking
// engine returns.  All loops have constant bounds (segments x positions), so for a concrete pattern the structure
// is concrete and the encoding is |segments| x |subject|^2 small boolean terms.
// Anything outside the fragment is QM_LIMIT (path cut, never a wrong answer).  Validated against the real
// QRegularExpression by conformance/ on every expression that appears in the repository.
#pragma once

#ifndef QM_RX_MAXSEG
#define QM_RX_MAXSEG 26
#endif
#define QM_RX_MAXWORDS 6
#define QM_RX_WORDMAX 10
#define QM_RX_MAXCAP 4

enum { RX_ATOM = 0, RX_ALT = 1, RX_GOPEN = 2, RX_GCLOSE = 3, RX_STR = 4 };
#define QM_RX_STRMAX 20
enum { RXC_LIT = 0, RXC_ANY = 1, RXC_DIGIT = 2, RXC_SPACE = 3, RXC_NSPACE = 4, RXC_WORD = 5, RXC_NDIGIT = 6, RXC_NWORD = 7, RXC_BRACKET = 8 };

struct RxSeg {
    unsigned char type;
    unsigned char cls;
    bool neg;               // bracket negation
    bool lazy;
    bool opt;               // GOPEN: the group is optional ( )?
    ushort ch;              // literal
    ushort lo[4], hi[4];    // bracket items (ranges)
    int nitems;
    int min, max;           // max < 0: unbounded
    int cap;                // capture index (>0) or 0
    int jump;               // GOPEN: index of the segment after the matching GCLOSE
    int w0, w1;             // ALT: words [w0,w1)
    ushort str[QM_RX_STRMAX]; int slen;   // STR: run of unquantified literal characters
};

struct RxProg {
    bool valid;
    bool anchorStart, anchorEnd;
    int n;                  // number of segments
    int ncap;
    RxSeg seg[QM_RX_MAXSEG];
    QString words[QM_RX_MAXWORDS];
    int nwords;
    bool det;               // the program is in the deterministic anchored fragment (rx_prog_is_det): one left-to-right scan decides
};

static inline bool rx_cls_match(const RxSeg &s, ushort c)
{
    switch (s.cls) {
    case RXC_LIT: return c == s.ch;
    case RXC_ANY: return c != '\n';
    case RXC_DIGIT: return c >= '0' && c <= '9';
    case RXC_NDIGIT: return !(c >= '0' && c <= '9');
    case RXC_SPACE: return c == ' ' || (c >= 9 && c <= 13);
    case RXC_NSPACE: return !(c == ' ' || (c >= 9 && c <= 13));
    case RXC_WORD: return (c >= '0' && c <= '9') || (c >= 'a' && c <= 'z') || (c >= 'A' && c <= 'Z') || c == '_';
    case RXC_NWORD: return !((c >= '0' && c <= '9') || (c >= 'a' && c <= 'z') || (c >= 'A' && c <= 'Z') || c == '_');
    default: {
        bool in = false;
        for (int k = 0; k < 4; ++k) if (k < s.nitems && c >= s.lo[k] && c <= s.hi[k]) in = true;
        return in != s.neg;
    }
    }
}

static inline bool rx_is_special(ushort c)
{
    return c == '\\' || c == '^' || c == '$' || c == '.' || c == '|' || c == '?' || c == '*' || c == '+' || c == '(' || c == ')' || c == '[' || c == '{';
}

// escape handling shared by atoms and ALT words: returns class for "\x"
static inline void rx_escape_class(ushort e, RxSeg &s)
{
    switch (e) {
    case 'd': s.cls = RXC_DIGIT; break;
    case 'D': s.cls = RXC_NDIGIT; break;
    case 's': s.cls = RXC_SPACE; break;
    case 'S': s.cls = RXC_NSPACE; break;
    case 'w': s.cls = RXC_WORD; break;
    case 'W': s.cls = RXC_NWORD; break;
    default:
        // \. \- \* ... : a non-alphanumeric escaped character stands for itself; alphanumeric escapes other than the
        // classes above (\b \A \n \x..) are outside the model
        QM_LIMIT(!((e >= 'a' && e <= 'z') || (e >= 'A' && e <= 'Z') || (e >= '0' && e <= '9')));
        s.cls = RXC_LIT; s.ch = e; break;
    }
}

struct RxPat {
    const ushort *u; const char *c; int m_len;
    ushort at(int i) const { return u ? u[i] : ushort(uchar(c[i])); }   // literals are read in place (constant global arrays fold in symex)
};
static inline bool rx_prog_is_det(const RxProg &pr);
static inline void rx_compile(const RxPat &pat, int LB, RxProg &pr)
{
    pr.valid = true; pr.anchorStart = false; pr.anchorEnd = false; pr.n = 0; pr.ncap = 0; pr.nwords = 0;
    const int L = pat.m_len;
    int pos = 0;
    int openSeg = -1;       // index of the open (single level) group, or -1
    if (L > 0 && pat.at(0) == '^') { pr.anchorStart = true; pos = 1; }
    for (int step = 0; step < LB + 1; ++step) if (pos < L) {      // (no early exits: keeps CBMC's path guards small)
        ushort c = pat.at(pos);
        if (c == '$' && pos == L - 1) { pr.anchorEnd = true; pos++; continue; }
        QM_LIMIT(pr.n < QM_RX_MAXSEG);
        RxSeg s; s.type = RX_ATOM; s.cls = RXC_LIT; s.neg = false; s.lazy = false; s.opt = false; s.ch = 0; s.nitems = 0; s.min = 1; s.max = 1; s.cap = 0; s.jump = 0; s.w0 = 0; s.w1 = 0; s.slen = 0;
        bool quantifiable = true;
        if (c == '(') {
            int q = pos + 1; bool capturing = true;
            if (q + 1 < L && pat.at(q) == '?' && pat.at(q + 1) == ':') { capturing = false; q += 2; }
            else QM_LIMIT(!(q < L && pat.at(q) == '?'));       // lookaround / named groups / options: outside the model
            // pure alternation of literal words?
            int close = -1; bool pure = true; bool bar = false;
            for (int i = 0; i < LB; ++i) if (i >= q && i < L && close < 0) {
                ushort d = pat.at(i);
                if (d == ')') close = i;
                else if (d == '|') bar = true;
                else if (d == '\\') { pure = false; }
                else if (rx_is_special(d)) pure = false;
            }
            if (close >= 0 && pure && bar) {
                s.type = RX_ALT; s.w0 = pr.nwords;
                QString w; w.m_null = false;
                for (int i = 0; i < LB; ++i) if (i >= q && i <= close) {
                    ushort d = pat.at(i);
                    if (d == '|' || i == close) { QM_LIMIT(pr.nwords < QM_RX_MAXWORDS); for (int j = 0; j < QM_RX_MAXWORDS; ++j) if (j == pr.nwords) pr.words[j] = w; pr.nwords++; w.m_len = 0; }
                    else { QM_LIMIT(w.m_len < QM_RX_WORDMAX); w.append(QChar(d)); }
                }
                s.w1 = pr.nwords;
                if (capturing) s.cap = ++pr.ncap;
                pos = close + 1;
                quantifiable = false;
                QM_LIMIT(!(pos < L && (pat.at(pos) == '?' || pat.at(pos) == '*' || pat.at(pos) == '+' || pat.at(pos) == '{')));
            } else {
                QM_LIMIT(openSeg < 0);          // nested groups (other than a word alternation) are outside the model
                s.type = RX_GOPEN;
                if (capturing) s.cap = ++pr.ncap;
                openSeg = pr.n;
                pos = q;
                quantifiable = false;
            }
        } else if (c == ')') {
            QM_LIMIT(openSeg >= 0);
            s.type = RX_GCLOSE;
            pos++;
            bool optional = false;
            if (pos < L && pat.at(pos) == '?') { optional = true; pos++; }
            QM_LIMIT(!(pos < L && (pat.at(pos) == '*' || pat.at(pos) == '+' || pat.at(pos) == '{' || pat.at(pos) == '?')));
            for (int j = 0; j < QM_RX_MAXSEG; ++j) if (j == openSeg) { s.cap = pr.seg[j].cap; pr.seg[j].opt = optional; pr.seg[j].jump = pr.n + 1; }
            openSeg = -1;
            quantifiable = false;
        } else if (c == '[') {
            s.cls = RXC_BRACKET;
            int i = pos + 1;
            if (i < L && pat.at(i) == '^') { s.neg = true; i++; }
            bool closed = false;
            for (int k = 0; k < 6; ++k) if (!closed) {
                QM_LIMIT(i < L);
                ushort d = pat.at(i);
                if (d == ']' && k > 0) { closed = true; i++; }
                else {
                    QM_LIMIT(d != '\\' && d != '[' && k < 4);
                    ushort lo = d, hi = d;
                    if (i + 2 < L && pat.at(i + 1) == '-' && pat.at(i + 2) != ']') { hi = pat.at(i + 2); i += 3; } else i++;
                    for (int j = 0; j < 4; ++j) if (j == s.nitems) { s.lo[j] = lo; s.hi[j] = hi; }
                    s.nitems++;
                }
            }
            QM_LIMIT(closed);
            pos = i;
        } else if (c == '\\') {
            QM_LIMIT(pos + 1 < L);
            rx_escape_class(pat.at(pos + 1), s);
            pos += 2;
        } else if (c == '.') { s.cls = RXC_ANY; pos++; }
        else {
            QM_LIMIT(c != '|' && c != '*' && c != '+' && c != '?' && c != '^' && c != '$');   // '|' at top level, dangling quantifiers, inner anchors: outside the model
            s.cls = RXC_LIT; s.ch = c; pos++;       // includes a '{' that does not start a quantifier (checked below) and '}' ']'
        }
        if (quantifiable && pos < L) {
            ushort qc = pat.at(pos);
            bool had = false;
            if (qc == '*') { s.min = 0; s.max = -1; pos++; had = true; }
            else if (qc == '+') { s.min = 1; s.max = -1; pos++; had = true; }
            else if (qc == '?') { s.min = 0; s.max = 1; pos++; had = true; }
            else if (qc == '{' && pos + 2 < L && pat.at(pos + 1) >= '0' && pat.at(pos + 1) <= '9') {
                // {n} or {n,m} or {n,} with single-digit numbers
                int n1 = pat.at(pos + 1) - '0';
                if (pat.at(pos + 2) == '}') { s.min = n1; s.max = n1; pos += 3; had = true; }
                else if (pat.at(pos + 2) == ',' && pos + 3 < L && pat.at(pos + 3) == '}') { s.min = n1; s.max = -1; pos += 4; had = true; }
                else if (pat.at(pos + 2) == ',' && pos + 4 < L && pat.at(pos + 3) >= '0' && pat.at(pos + 3) <= '9' && pat.at(pos + 4) == '}') { s.min = n1; s.max = pat.at(pos + 3) - '0'; pos += 5; had = true; }
                else QM_LIMIT(false);    // multi-digit counts: outside the model
            }
            if (had && pos < L) {
                if (pat.at(pos) == '?') { s.lazy = true; pos++; }
                QM_LIMIT(!(pos < L && (pat.at(pos) == '+' || pat.at(pos) == '*' || (pat.at(pos) == '?' && !s.lazy))));   // possessive / stacked quantifiers
            }
        }
        if (s.type == RX_ATOM && s.cls == RXC_LIT && s.min == 1 && s.max == 1) {
            // an unquantified literal joins the preceding literal run
            bool merged = false;
            for (int j = 0; j < QM_RX_MAXSEG; ++j) if (j == pr.n - 1 && pr.seg[j].type == RX_STR && pr.seg[j].slen < QM_RX_STRMAX) {
                for (int k = 0; k < QM_RX_STRMAX; ++k) if (k == pr.seg[j].slen) pr.seg[j].str[k] = s.ch;
                pr.seg[j].slen++; merged = true;
            }
            if (merged) continue;
            s.type = RX_STR; s.str[0] = s.ch; s.slen = 1;
        }
        for (int j = 0; j < QM_RX_MAXSEG; ++j) if (j == pr.n) pr.seg[j] = s;
        pr.n++;
    }
    QM_LIMIT(pos >= L);           // pattern longer than the model can hold
    QM_LIMIT(openSeg < 0);        // unbalanced '(' : PCRE reports an invalid pattern; not modelled
    pr.det = rx_prog_is_det(pr);
}

static inline bool rx_word_at(const QString &subj, int p, const QString &word)
{
    if (p < 0 || p + word.m_len > subj.m_len) return false;
    bool ok = true;
    for (int k = 0; k < QM_RX_WORDMAX; ++k) if (k < word.m_len && subj.m_d[p + k] != word.m_d[k]) ok = false;
    return ok;
}

struct RxResult {
    bool has;
    int start, end;
    int cs[QM_RX_MAXCAP + 1], ce[QM_RX_MAXCAP + 1];    // capture extents, -1 = did not participate
};

// ---- deterministic anchored fragment.  A program  ^ s1 s2 ... sn $  whose segments are literal runs, fixed-count atoms,
// GREEDY atoms whose follow set is disjoint from their class (the next literal's first character is not in the class, or the
// program ends), plain capture groups, and at most one OPTIONAL group of literal runs at the very end, has exactly one way to
// match: a backtracking engine can never succeed with a shorter greedy run (the next character would have to be both in the
// class and equal to a literal outside it) and the optional tail is present iff characters remain.  Such programs (the
// rotated-file-name expressions of rotatingfilesink.cpp) are decided by one left-to-right scan with concrete loop indices
// instead of the segments x positions dynamic programme.  In concrete builds both engines run and must agree (QM_ASSERT).
static inline bool rx_prog_is_det(const RxProg &pr)
{
    bool det = pr.anchorStart && pr.anchorEnd;
    const int N = pr.n;
    bool inOpt = false; int optEnd = -1;
    for (int i = 0; i < QM_RX_MAXSEG; ++i) if (i < N) {
        const RxSeg seg = pr.seg[i];
        if (seg.type == RX_ALT) det = false;
        else if (seg.type == RX_GOPEN) {
            if (seg.opt) { if (inOpt || seg.jump != N) det = false; inOpt = true; optEnd = seg.jump - 1; }
            else if (inOpt) det = false;
        } else if (seg.type == RX_GCLOSE) { /* bookkeeping only */ }
        else if (seg.type == RX_STR) { if (seg.slen < 1) det = false; }
        else {        // RX_ATOM
            if (inOpt || seg.lazy) det = false;
            if (!(seg.min == seg.max)) {
                if (seg.max >= 0) det = false;          // {n,m}: outside the fragment
                // follow set: skip group closes; then a literal outside the class, an optional tail starting with such a literal, or the end
                int j = i + 1; bool ok = false; bool done = false;
                for (int k = 0; k < 3; ++k) if (!done) {
                    if (j >= N) { ok = true; done = true; }
                    else {
                        const RxSeg nx = pr.seg[j < QM_RX_MAXSEG ? j : 0];
                        if (nx.type == RX_GCLOSE) ++j;
                        else if (nx.type == RX_GOPEN && nx.opt) ++j;       // (its first segment is checked next; the alternative "absent" means the end)
                        else if (nx.type == RX_STR) { ok = nx.slen >= 1 && !rx_cls_match(seg, nx.str[0]); done = true; }
                        else { ok = false; done = true; }
                    }
                }
                if (!ok) det = false;
            }
        }
    }
    return det;
}

static inline void rx_exec_det(const RxProg &pr, const QString &subj, RxResult &res)
{
    const int L = subj.m_len;
    const int N = pr.n;
    res.has = false; res.start = -1; res.end = -1;
    int cs[QM_RX_MAXCAP + 1], ce[QM_RX_MAXCAP + 1];
    for (int g = 0; g <= QM_RX_MAXCAP; ++g) { res.cs[g] = -1; res.ce[g] = -1; cs[g] = -1; ce[g] = -1; }
    QM_LIMIT(!(L > 0 && subj.m_d[L - 1 < 0 ? 0 : L - 1] == '\n'));     // '$' before a final newline: not modelled
    bool ok = true; int p = 0; bool skipping = false;
    for (int i = 0; i < QM_RX_MAXSEG; ++i) if (i < N) {
        const RxSeg seg = pr.seg[i];
        const int type = seg.type, smin = seg.min, smax = seg.max, slen = seg.slen, cap = seg.cap;
        if (type == RX_GOPEN) {
            if (seg.opt && p >= L) skipping = true;         // nothing left: the optional tail is absent
            else if (cap) for (int g = 0; g <= QM_RX_MAXCAP; ++g) if (g == cap) cs[g] = p;
        } else if (skipping) { /* inside the absent optional tail */ }
        else if (type == RX_GCLOSE) {
            if (cap) for (int g = 0; g <= QM_RX_MAXCAP; ++g) if (g == cap) ce[g] = p;
        } else if (type == RX_STR) {
            if (p + slen > L) ok = false;
            for (int q = 0; q < QM_STR_CAP; ++q) if (q >= p && q < p + slen && q < L) {
                const int k = q - p;
                if (subj.m_d[q] != seg.str[k >= 0 && k < QM_RX_STRMAX ? k : 0]) ok = false;
            }
            p += slen;
        } else {      // RX_ATOM
            int run = 0; bool alive = true;
            for (int q = 0; q < QM_STR_CAP; ++q) if (q >= p && q < L && alive) { if (rx_cls_match(seg, subj.m_d[q])) ++run; else alive = false; }
            int take = smin == smax ? smin : run;
            if (run < smin) ok = false;
            p += take;
        }
        if (p > L) { ok = false; p = L; }
    }
    if (p != L) ok = false;
    if (!ok) return;
    res.has = true; res.start = 0; res.end = L;
    for (int g = 0; g <= QM_RX_MAXCAP; ++g) { res.cs[g] = cs[g]; res.ce[g] = ce[g]; }
}

// DP tables are deliberately flat arrays of more than 64 elements: CBMC then treats them through array theory instead of
// expanding them field by field on every access (an access costs time proportional to the number of leaves of its root object).
#define QM_RX_W (QM_STR_CAP + 2)
#define QM_RX_TAB ((QM_RX_MAXSEG + 1) * QM_RX_W < 80 ? 80 : (QM_RX_MAXSEG + 1) * QM_RX_W)
static inline void rx_exec_generic(const RxProg &pr, const QString &subj, int from, RxResult &res)
{
    const int L = subj.m_len;
    const int N = pr.n;
    const bool aStart = pr.anchorStart, aEnd = pr.anchorEnd;
    res.has = false; res.start = -1; res.end = -1;
    for (int g = 0; g <= QM_RX_MAXCAP; ++g) { res.cs[g] = -1; res.ce[g] = -1; }
    QM_LIMIT(!(aEnd && L > 0 && subj.m_d[L - 1 < 0 ? 0 : L - 1] == '\n'));     // '$' before a final newline: not modelled
    ushort sub[QM_STR_CAP + 1];
    for (int p = 0; p < QM_STR_CAP; ++p) sub[p] = subj.m_d[p];
    sub[QM_STR_CAP] = 0;
    bool can[QM_RX_TAB];        // can[i*W+p]: segments i.. match from p to an accepting end
    short run[QM_RX_TAB];       // run[i*W+p]: how many consecutive characters from p the class of atom i matches
    for (int i = QM_RX_MAXSEG; i >= 0; --i) if (i <= N) {
        const int row = i * QM_RX_W, nrow = (i + 1) * QM_RX_W;
        if (i == N) { for (int p = 0; p <= QM_STR_CAP; ++p) can[row + p] = p <= L && (!aEnd || p == L); }
        else {
        const RxSeg seg = pr.seg[i];          // local copy: small root object
        const int type = seg.type, smin = seg.min, smax = seg.max, slen = seg.slen, w0 = seg.w0, w1 = seg.w1, jump = seg.jump; const bool opt = seg.opt;
        if (type == RX_ATOM) {
            run[row + QM_STR_CAP + 1] = 0;
            for (int p = QM_STR_CAP; p >= 0; --p) run[row + p] = (p < L && rx_cls_match(seg, sub[p])) ? short(1 + run[row + p + 1]) : short(0);
            for (int p = 0; p <= QM_STR_CAP; ++p) {
                bool ok = false; const int r = run[row + p];
                for (int k = 0; k + p <= QM_STR_CAP; ++k)
                    if (k >= smin && (smax < 0 || k <= smax) && k <= r && can[nrow + p + k]) ok = true;
                can[row + p] = ok;
            }
        } else if (type == RX_ALT) {
            for (int p = 0; p <= QM_STR_CAP; ++p) {
                bool ok = false;
                for (int w = 0; w < QM_RX_MAXWORDS; ++w) if (w >= w0 && w < w1) {
                    const int wl = pr.words[w].m_len;
                    if (rx_word_at(subj, p, pr.words[w]) && can[nrow + p + wl]) ok = true;
                }
                can[row + p] = ok;
            }
        } else if (type == RX_STR) {
            for (int p = 0; p <= QM_STR_CAP; ++p) {
                bool ok = p + slen <= L;
                for (int k = 0; k < QM_RX_STRMAX; ++k) if (k < slen && ok && sub[(p + k) < QM_STR_CAP ? (p + k) : QM_STR_CAP] != seg.str[k]) ok = false;
                can[row + p] = ok && can[nrow + (ok ? p + slen : 0)];
            }
        } else if (type == RX_GOPEN) {
            for (int p = 0; p <= QM_STR_CAP; ++p) can[row + p] = can[nrow + p] || (opt && can[jump * QM_RX_W + p]);
        } else {
            for (int p = 0; p <= QM_STR_CAP; ++p) can[row + p] = can[nrow + p];
        }
        }
    }
    // leftmost start
    int start = -1;
    for (int p = 0; p <= QM_STR_CAP; ++p) if (start < 0 && p >= from && p <= L && can[p] && (!aStart || p == 0)) start = p;
    if (start < 0) return;
    res.has = true; res.start = start;
    // forward pass in preference order.  The segment index stays a concrete loop counter (an optional group that is
    // skipped simply deactivates the segments up to its end), only the subject position is data.
    int p = start;
    int skipTo = 0;
    for (int i = 0; i < QM_RX_MAXSEG; ++i) if (i < N && i >= skipTo) {
        const int row = i * QM_RX_W, nrow = (i + 1) * QM_RX_W;
        const RxSeg seg = pr.seg[i];
        const int type = seg.type, smin = seg.min, smax = seg.max, slen = seg.slen, w0 = seg.w0, w1 = seg.w1, jump = seg.jump, cap = seg.cap; const bool lazy = seg.lazy;
        if (type == RX_ATOM) {
            int chosen = -1; const int r = run[row + p];
            if (lazy) { for (int k = 0; k <= QM_STR_CAP; ++k) if (chosen < 0 && k >= smin && (smax < 0 || k <= smax) && p + k <= QM_STR_CAP && k <= r && can[nrow + p + k]) chosen = k; }
            else { for (int k = QM_STR_CAP; k >= 0; --k) if (chosen < 0 && k >= smin && (smax < 0 || k <= smax) && p + k <= QM_STR_CAP && k <= r && can[nrow + p + k]) chosen = k; }
            QM_ASSERT(chosen >= 0, "regex model: forward pass lost the match");
            p += chosen;
        } else if (type == RX_ALT) {
            int len = -1;
            for (int w = 0; w < QM_RX_MAXWORDS; ++w) if (len < 0 && w >= w0 && w < w1) {
                const int wl = pr.words[w].m_len;
                if (rx_word_at(subj, p, pr.words[w]) && can[nrow + p + wl]) len = wl;
            }
            QM_ASSERT(len >= 0, "regex model: forward pass lost the match");
            if (cap) for (int g = 0; g <= QM_RX_MAXCAP; ++g) if (g == cap) { res.cs[g] = p; res.ce[g] = p + len; }
            p += len;
        } else if (type == RX_STR) {
            p += slen;
        } else if (type == RX_GOPEN) {
            if (can[nrow + p]) { if (cap) for (int g = 0; g <= QM_RX_MAXCAP; ++g) if (g == cap) res.cs[g] = p; }
            else skipTo = jump;
        } else {
            if (cap) for (int g = 0; g <= QM_RX_MAXCAP; ++g) if (g == cap) res.ce[g] = p;
        }
    }
    res.end = p;
}

static inline void rx_exec(const RxProg &pr, const QString &subj, int from, RxResult &res)
{
    if (pr.det && from == 0) {
        rx_exec_det(pr, subj, res);
#ifdef VF_CONCRETE
        // concrete builds (conformance runs, native replays): the two engines must agree
        RxResult g; rx_exec_generic(pr, subj, from, g);
        bool same = g.has == res.has;
        if (same && g.has) { same = g.start == res.start && g.end == res.end; for (int k = 0; k <= QM_RX_MAXCAP; ++k) if (g.cs[k] != res.cs[k] || g.ce[k] != res.ce[k]) same = false; }
        QM_ASSERT(same, "regex model: deterministic scan and generic engine disagree");
#endif
        return;
    }
    rx_exec_generic(pr, subj, from, res);
}

// ---- flat fragment (used for patterns whose TEXT is symbolic, -DQM_RX_FLAT): a sequence of single-character atoms
// (literal, escaped literal, '.') each optionally followed by * + ?, with ^ / $ at the ends.  This is exactly what
// QRegularExpression::escape() + replace("\\*", ".*") can produce, plus bare '.', '*', '+', '?' so that a missing escape
// changes verdicts instead of leaving the model.  Groups, classes, braces and alternation are QM_LIMIT here.
#ifndef QM_RX_FLATMAX
#define QM_RX_FLATMAX QM_STR_CAP
#endif
struct RxFlat {
    bool anchorStart, anchorEnd;
    int n;
    unsigned char kind[QM_RX_FLATMAX];    // 0 literal, 1 any-but-newline
    unsigned char quant[QM_RX_FLATMAX];   // 0 one, 1 star, 2 plus, 3 optional
    ushort ch[QM_RX_FLATMAX];
};
static inline void rx_flat_compile(const QString &pat, RxFlat &f)
{
    const int L = pat.m_len;
    f.anchorStart = false; f.anchorEnd = false; f.n = 0;
    int pos = 0;
    int LE = L;        // effective end of the expression body
    if (L > 0 && pat.m_d[0] == '^') { f.anchorStart = true; pos = 1; }
    // QRegularExpression::anchoredPattern(): \A(?: body )\z
    if (L >= 8 && pat.m_d[0] == '\\' && pat.m_d[1] == 'A' && pat.m_d[2] == '(' && pat.m_d[3] == '?' && pat.m_d[4] == ':') {
        QM_LIMIT(pat.m_d[L - 3 < 0 ? 0 : L - 3] == ')' && pat.m_d[L - 2 < 0 ? 0 : L - 2] == '\\' && pat.m_d[L - 1] == 'z');
        f.anchorStart = true; f.anchorEnd = true; pos = 5; LE = L - 3;
    }
    for (int step = 0; step < QM_STR_CAP; ++step) if (pos < LE) {
        ushort c = pat.m_d[pos];
        if (c == '$' && pos == L - 1) { f.anchorEnd = true; pos++; continue; }
        unsigned char kind = 0; ushort ch = c;
        if (c == '[' && pos + 3 < LE && pat.m_d[(pos + 1) < QM_STR_CAP ? pos + 1 : 0] == '^' && pat.m_d[(pos + 2) < QM_STR_CAP ? pos + 2 : 0] == '/' && pat.m_d[(pos + 3) < QM_STR_CAP ? pos + 3 : 0] == ']') {
            kind = 2; pos += 4;          // [^/]  (from wildcardToRegularExpression)
        } else if (c == '\\') {
            QM_LIMIT(pos + 1 < L);
            ch = pat.m_d[pos + 1 < QM_STR_CAP ? pos + 1 : 0];
            QM_LIMIT(!((ch >= 'a' && ch <= 'z') || (ch >= 'A' && ch <= 'Z') || (ch >= '0' && ch <= '9')));   // \d \s ... : not in the flat fragment
            pos += 2;
        } else {
            QM_LIMIT(c != '(' && c != ')' && c != '[' && c != '{' && c != '|' && c != '^' && c != '$' && c != '*' && c != '+' && c != '?');
            if (c == '.') kind = 1;
            pos++;
        }
        unsigned char q = 0;
        if (pos < LE) {
            ushort qc = pat.m_d[pos < QM_STR_CAP ? pos : 0];
            if (qc == '*') { q = 1; pos++; } else if (qc == '+') { q = 2; pos++; } else if (qc == '?') { q = 3; pos++; }
            if (q != 0 && pos < LE) { ushort l2 = pat.m_d[pos < QM_STR_CAP ? pos : 0]; QM_LIMIT(l2 != '?' && l2 != '+' && l2 != '*'); }   // lazy/possessive: not needed for hasMatch-only... excluded
        }
        QM_LIMIT(f.n < QM_RX_FLATMAX);
        for (int j = 0; j < QM_RX_FLATMAX; ++j) if (j == f.n) { f.kind[j] = kind; f.quant[j] = q; f.ch[j] = ch; }
        f.n++;
    }
}
static inline bool rx_flat_has_match(const RxFlat &f, const QString &subj)
{
    const int L = subj.m_len;
    bool cur[QM_STR_CAP + 2], nxt[QM_STR_CAP + 2];
    for (int j = 0; j <= QM_STR_CAP; ++j) cur[j] = j <= L && (!f.anchorStart || j == 0);
    for (int k = 0; k < QM_RX_FLATMAX; ++k) if (k < f.n) {
        const unsigned char q = f.quant[k];
        bool prevNew = false;
        for (int j = 0; j <= QM_STR_CAP; ++j) {
            // m: atom k matches subject[j-1]
            bool m = j >= 1 && j <= L && (f.kind[k] == 1 ? subj.m_d[j - 1] != '\n' : f.kind[k] == 2 ? subj.m_d[j - 1] != '/' : subj.m_d[j - 1] == f.ch[k]);
            bool viaOne = j >= 1 && cur[j - 1] && m;
            bool v;
            if (q == 0) v = viaOne;
            else if (q == 3) v = cur[j] || viaOne;
            else if (q == 1) v = cur[j] || (prevNew && m);
            else v = viaOne || (prevNew && m);
            nxt[j] = v && j <= L;
            prevNew = nxt[j];
        }
        for (int j = 0; j <= QM_STR_CAP; ++j) cur[j] = nxt[j];
    }
    bool r = false;
    for (int j = 0; j <= QM_STR_CAP; ++j) if (j <= L && cur[j] && (!f.anchorEnd || j == L)) r = true;
    return r;
}

class QRegularExpressionMatch
{
public:
    RxResult m_r;
    QString m_subject;
    bool m_flat;
    QRegularExpressionMatch() : m_flat(false) { m_r.has = false; }
    bool hasMatch() const { return m_r.has; }
    bool isValid() const { return true; }
    int capturedStart(int g = 0) const { QM_LIMIT(!m_flat); if (!m_r.has) return -1; return g == 0 ? m_r.start : ((g <= QM_RX_MAXCAP) ? m_r.cs[g] : -1); }
    int capturedEnd(int g = 0) const { QM_LIMIT(!m_flat); if (!m_r.has) return -1; return g == 0 ? m_r.end : ((g <= QM_RX_MAXCAP) ? m_r.ce[g] : -1); }
    QString captured(int g = 0) const
    {
        if (!m_r.has) return QString();
        int s = capturedStart(g), e = capturedEnd(g);
        if (s < 0 || e < s) return QString();           // group did not participate: null string
        QString r = m_subject.mid(s, e - s);
        r.m_null = false;
        return r;
    }
};

// ---- closed form for categoryfilter.cpp's rule-line expression
//   ^\s*(\S+?)(?:\.(debug|info|warning|critical))?\s*=\s*(true|false)\s*$
// (the generic engine handles it too, but through a dynamic programme that is far more expensive for the solver).
// Derivation: the tail "= ws* (true|false) ws* $" is anchored at the end, so the value, the '=' and the end r of the
// category part are determined from the right; the category part [i0,r) must be free of white space; the lazy group 1
// gives a trailing ".debug|.info|.warning|.critical" to group 2 whenever a non-empty category remains.
#define QM_RX_RULE_TEXT "^\\s*(\\S+?)(?:\\.(debug|info|warning|critical))?\\s*=\\s*(true|false)\\s*$"
static inline bool rx_ws(ushort c) { return c == ' ' || (c >= 9 && c <= 13); }
static inline bool rx_tail_is(const QString &s, int end, const char *w, int wl)
{
    bool ok = end - wl >= 0;
    for (int k = 0; k < 9; ++k) if (k < wl && ok && s.m_d[(end - wl + k) >= 0 && (end - wl + k) < QM_STR_CAP ? (end - wl + k) : 0] != ushort(uchar(w[k]))) ok = false;
    return ok;
}
static inline void rx_rule_line(const QString &s, RxResult &res)
{
    const int L = s.m_len;
    res.has = false; res.start = -1; res.end = -1;
    for (int g = 0; g <= QM_RX_MAXCAP; ++g) { res.cs[g] = -1; res.ce[g] = -1; }
    int i0 = -1, e1 = 0;
    for (int i = 0; i < QM_STR_CAP; ++i) if (i < L && !rx_ws(s.m_d[i])) { if (i0 < 0) i0 = i; e1 = i + 1; }
    if (i0 < 0) return;
    int vs = -1;
    if (rx_tail_is(s, e1, "true", 4)) vs = e1 - 4; else if (rx_tail_is(s, e1, "false", 5)) vs = e1 - 5;
    if (vs < 1) return;
    int q = 0;       // one past the last non-blank before the value
    for (int i = 0; i < QM_STR_CAP; ++i) if (i < vs && !rx_ws(s.m_d[i])) q = i + 1;
    if (q < 1 || s.m_d[q - 1] != '=') return;
    const int eq = q - 1;
    int r = 0; bool blankInside = false;
    for (int i = 0; i < QM_STR_CAP; ++i) if (i < eq && !rx_ws(s.m_d[i])) r = i + 1;
    if (r <= i0) return;
    for (int i = 0; i < QM_STR_CAP; ++i) if (i >= i0 && i < r && rx_ws(s.m_d[i])) blankInside = true;
    if (blankInside) return;
    int tl = 0;
    if (rx_tail_is(s, r, ".debug", 6)) tl = 6; else if (rx_tail_is(s, r, ".info", 5)) tl = 5; else if (rx_tail_is(s, r, ".warning", 8)) tl = 8; else if (rx_tail_is(s, r, ".critical", 9)) tl = 9;
    if (tl > 0 && r - tl <= i0) tl = 0;         // nothing would be left for the category: the suffix belongs to it
    res.has = true; res.start = 0; res.end = L;
    res.cs[1] = i0; res.ce[1] = r - tl;
    if (tl > 0) { res.cs[2] = r - tl + 1; res.ce[2] = r; }
    res.cs[3] = vs; res.ce[3] = e1;
}

template<int N> static inline bool rx_is_lit(const QString &s, const char (&lit)[N])
{
    if (s.m_len != N - 1) return false;
    bool r = true;
    for (int i = 0; i < N - 1 && i < QM_STR_CAP; ++i) if (s.m_d[i] != ushort(uchar(lit[i]))) r = false;
    return r;
}

class QRegularExpression
{
public:
    enum PatternOption { NoPatternOption = 0, CaseInsensitiveOption = 1 };
    QString m_pattern;
    RxProg m_prog;
    bool m_is_flat = false;
    bool m_rule_line = false;
#ifdef QM_RX_FLAT
    RxFlat m_flat;
#endif
    bool m_special_time;      // filesink.cpp's "(.*)%{time *(.*?)}(.*)": only "no match" is modelled
    QRegularExpression() : m_special_time(false) { m_prog.det = false; m_prog.valid = true; m_prog.n = 0; m_prog.anchorStart = false; m_prog.anchorEnd = false; m_prog.ncap = 0; m_prog.nwords = 0; }
    QRegularExpression(const QString &p, int options = 0) : m_pattern(p), m_special_time(false)
    {
        QM_LIMIT(options == 0);
        if (rx_is_lit(p, "(.*)%{time *(.*?)}(.*)")) { m_special_time = true; m_prog.valid = true; m_prog.n = 0; return; }
#ifdef QM_RX_FLAT
        m_is_flat = true;
        rx_flat_compile(p, m_flat);
#else
        RxPat rp = { p.m_d, nullptr, p.m_len };
        rx_compile(rp, QM_STR_CAP, m_prog);
#endif
    }
    // a pattern given as a string literal is compiled straight from the literal (it may be longer than QM_STR_CAP)
    template<int N> QRegularExpression(const char (&lit)[N]) : m_special_time(false)
    {
        {
            // (compared against the literal in place: a local copy would be an array of more than 64 elements, which
            //  CBMC does not constant-propagate)
            bool same = N == sizeof(QM_RX_RULE_TEXT);
            for (int i = 0; i < N && i < int(sizeof(QM_RX_RULE_TEXT)); ++i) if (lit[i] != QM_RX_RULE_TEXT[i]) same = false;
            if (same) { m_rule_line = true; m_prog.valid = true; m_prog.n = 0; return; }
        }
#ifdef QM_RX_FLAT
        QM_LIMIT(false);     // other literal expressions are not available in a flat-mode harness
        return;
#endif
        // compiled once per literal (the repository constructs its constant expressions inside loops)
        static const char *cachedFor = nullptr;
        static RxProg cached;
        if (cachedFor != lit) {
            RxPat rp = { nullptr, lit, N - 1 };
            rx_compile(rp, N, cached);
            cachedFor = lit;
        }
        m_prog = cached;
    }
    QString pattern() const { return m_pattern; }
    bool isValid() const { return true; }
    QRegularExpressionMatch match(const QString &subject, int offset = 0) const
    {
        QRegularExpressionMatch m;
        m.m_subject = subject;
        if (m_special_time) {
            // matches iff the subject contains "%{time" followed (anywhere later) by '}'; captures are not modelled
            int at = -1;
            for (int i = 0; i + 6 <= QM_STR_CAP; ++i) if (at < 0 && i + 6 <= subject.m_len && subject.m_d[i] == '%' && subject.m_d[i + 1] == '{' && subject.m_d[i + 2] == 't' && subject.m_d[i + 3] == 'i' && subject.m_d[i + 4] == 'm' && subject.m_d[i + 5] == 'e') at = i;
            bool hit = at >= 0 && subject.indexOf(QChar('}'), at) >= 0;
            QM_LIMIT(!hit);
            m.m_r.has = false;
            return m;
        }
        if (m_rule_line) { QM_LIMIT(offset == 0); rx_rule_line(subject, m.m_r); return m; }
#ifdef QM_RX_FLAT
        // in a flat-mode harness every expression is either the rule-line expression or flat: the generic engine is not
        // even referenced (objects reached through possibly-null pointers would otherwise drag it into the encoding)
        QM_LIMIT(m_is_flat);
        QM_LIMIT(offset == 0); m.m_flat = true; m.m_r.has = rx_flat_has_match(m_flat, subject); return m;
#else
        rx_exec(m_prog, subject, offset, m.m_r);
        return m;
#endif
    }
    static QString anchoredPattern(const QString &e) { return QString::fromLatin1("\\A(?:") + e + QString::fromLatin1(")\\z"); }
    static QString wildcardToRegularExpression(const QString &w)
    {
        // Qt 5.15 (non-Windows): * -> [^/]*, ? -> [^/], metacharacters escaped; [..] classes are outside the model
        QString rx; rx.m_null = false;
        for (int i = 0; i < QM_STR_CAP; ++i) if (i < w.m_len) {
            ushort c = w.m_d[i];
            QM_LIMIT(c != '[');
            if (c == '*') rx.append(QString::fromLatin1("[^/]*"));
            else if (c == '?') rx.append(QString::fromLatin1("[^/]"));
            else if (c == '\\' || c == '$' || c == '(' || c == ')' || c == '+' || c == '.' || c == '^' || c == '{' || c == '|' || c == '}') { rx.append(QChar('\\')); rx.append(QChar(c)); }
            else rx.append(QChar(c));
        }
        return anchoredPattern(rx);
    }
    static QString escape(const QString &s)
    {
        QString r; r.m_null = s.m_null; if (r.m_null) { r.m_null = false; }
        for (int i = 0; i < QM_STR_CAP; ++i) if (i < s.m_len) {
            ushort c = s.m_d[i];
            if (c == 0) { r.append(QChar('\\')); r.append(QChar('0')); }
            else if (!((c >= 'a' && c <= 'z') || (c >= 'A' && c <= 'Z') || (c >= '0' && c <= '9') || c == '_')) {
                r.append(QChar('\\')); r.append(QChar(c));
                if ((c & 0xfc00) == 0xd800 && i < s.m_len - 1) { r.append(QChar(s.m_d[i + 1])); ++i; }
            } else r.append(QChar(c));
        }
        return r;
    }
};

inline QString &QString::remove(const QRegularExpression &re)
{
    // QString::remove(re) == replace(re, QString()): all non-overlapping leftmost matches
    int from = 0;
    for (int step = 0; step < QM_STR_CAP + 1; ++step) {
        if (from < 0) continue;
        QRegularExpressionMatch m = re.match(*this, from);
        if (!m.hasMatch()) { from = -1; continue; }
        int s = m.capturedStart(0), e = m.capturedEnd(0);
        QM_LIMIT(e > s);      // empty matches: not modelled
        remove(s, e - s);
        from = s;
    }
    return *this;
}
