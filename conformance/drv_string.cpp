// conformance driver: QString / QByteArray / QList / QVariant model vs real Qt on random operations
#include "vf_prelude.h"
#include "vf_util.h"
extern "C" void vf_out_int(long long v);
static void out_str(const QString &s) { vf_out_int(s.isNull() ? -1 : s.size()); for (int i = 0; i < s.size(); ++i) vf_out_int(s.at(i).unicode()); }
static void out_ba(const QByteArray &s) { vf_out_int(s.isNull() ? -1 : s.size()); for (int i = 0; i < s.size(); ++i) vf_out_int((unsigned char)s.at(i)); }
extern "C" void h_conf_string()
{
    static const unsigned short menu[] = { 'a', 'b', ' ', '%', '1', '2', '-', '+', 'A', 0x00e9, 0x200b, '\t', '9', '0', '.', ':' };
    int op = vf_range(0, 27);
    vf_out_int(op);
    bool nullA = vf_nondet_bool();
    QString a = vf_string_menu(6, menu, 16); if (nullA && a.isEmpty()) a = QString();
    QString b = vf_string_menu(3, menu, 16);
    int i = vf_range(-3, 8), n = vf_range(-3, 8);
    out_str(a); out_str(b); vf_out_int(i); vf_out_int(n);
    switch (op) {
    case 0: out_str(a.mid(i, n)); out_str(a.mid(i)); break;
    case 1: out_str(a.left(n)); out_str(a.right(n)); break;
    case 2: { QString c = a; c.chop(n); out_str(c); QString d = a; d.truncate(i); out_str(d); break; }
    case 3: vf_out_int(a.indexOf(b, i)); vf_out_int(a.lastIndexOf(b, i)); vf_out_int(a.indexOf(QChar('a'), i)); vf_out_int(a.lastIndexOf(QChar('a'), i)); vf_out_int(a.lastIndexOf(QLatin1Char('b'))); break;
    case 4: vf_out_int(a.startsWith(b)); vf_out_int(a.endsWith(b)); vf_out_int(a.contains(b)); vf_out_int(a == b); vf_out_int(a < b); break;
    case 5: { bool ok; int v = a.toInt(&ok); vf_out_int(ok); vf_out_int(ok ? v : 0); vf_out_int(a.toInt()); break; }
    case 6: out_str(a.trimmed()); out_str(a.toLower()); break;
    case 7: if (!b.isEmpty()) { QString c = a; c.replace(b, QStringLiteral("xy")); out_str(c); QString d = a; d.replace(QChar('a'), QChar('z')); out_str(d); } break;
    case 8: { QString c = a; c.remove(QChar('a')); out_str(c); QString d = a; d.remove(i, n); out_str(d); break; }
    case 9: { QString c = a; c.append(b); out_str(c); QString d = a + b; out_str(d); QString e = a; e += QChar('q'); out_str(e); QString f; f.append(b); out_str(f); QString g; g.append(QString()); out_str(g); break; }
    case 10: { const auto l = a.split(QChar(' '), Qt::SkipEmptyParts); vf_out_int(l.size()); for (const auto &x : l) out_str(x); const auto k = a.split(QChar('a')); vf_out_int(k.size()); for (const auto &x : k) out_str(x); break; }
    case 11: out_str(QString::number(vf_range(-9999, 9999))); out_str(QString::number((qulonglong)vf_range(0, 70000) * 4099u, 16)); break;
    case 12: out_str(QStringLiteral("%1.%2.%3").arg(a, b).arg(n)); out_str(QStringLiteral("%2-%1-%2").arg(a).arg(b)); out_str(a.arg(b)); break;
    case 13: out_ba(a.toUtf8()); out_ba(a.toLatin1()); out_ba(a.toLocal8Bit().append("\n")); break;
    case 14: { QByteArray x = a.toLatin1(); out_ba(x.mid(i, n)); vf_out_int(x.indexOf("ab", i)); vf_out_int(x.lastIndexOf("a", i)); vf_out_int(x.lastIndexOf('a')); vf_out_int(x.indexOf('b', i)); QByteArray y = x; y.replace("a ", "a"); out_ba(y); QByteArray z = x; z.remove(i, n); out_ba(z); QByteArray w = x; w.truncate(i); out_ba(w); QByteArray v = x; v.chop(n); out_ba(v); vf_out_int(x.endsWith("a")); vf_out_int(x.startsWith('a')); vf_out_int(x == "ab"); break; }
    case 15: out_str(QString(n, QChar('x'))); out_str(QString::fromLatin1(a.toLatin1())); out_str(QString::fromUtf8(a.toLatin1().constData())); break;
    case 16: { QVariant v1(a); QVariant v2(n); QVariant v3(true); out_str(v1.toString()); out_str(v2.toString()); out_str(v3.toString()); vf_out_int(v1.toInt()); vf_out_int(v1.toBool()); vf_out_int(v2.toBool()); vf_out_int(QVariant().toBool()); out_str(QVariant().toString()); vf_out_int(QVariant(a.toLatin1().constData()).toString() == a); break; }
    case 17: { QList<int> l; for (int k = 0; k < 5; ++k) l.append(k); l.insert(i, 77); l.removeAt(n); for (int k = 0; k < l.size(); ++k) vf_out_int(l.at(k)); vf_out_int(l.removeAll(2)); vf_out_int(l.indexOf(3)); break; }
    case 18: { QHash<QString, QVariant> h; h.insert(a, 1); h.insert(b, 2); h.insert(a, 3); vf_out_int(h.size()); vf_out_int(h.value(a).toInt()); vf_out_int(h.value(b).toInt()); vf_out_int(h.contains(QStringLiteral("zz"))); h.remove(a); vf_out_int(h.size()); QHash<QString, QVariant> g; g.insert(b, 9); g.insert(QStringLiteral("k"), 8); h.insert(g); vf_out_int(h.size()); vf_out_int(h.value(b).toInt()); break; }
    case 19: vf_out_int(QChar(a.isEmpty() ? QChar('x') : a.at(0)).isLetterOrNumber()); vf_out_int(QChar::isLetterOrNumber((char)i)); vf_out_int(QChar(QLatin1Char(char(0xe9))).isLetterOrNumber()); break;
    case 20: out_str(QRegularExpression::escape(a)); break;
    case 21: vf_out_int(a.isNull()); vf_out_int(a.isEmpty()); { QString c = a; c.clear(); vf_out_int(c.isNull()); QString d = a; d.chop(100); vf_out_int(d.isNull()); QString e = a; e.resize(0); vf_out_int(e.isNull()); vf_out_int(QString("").isNull()); vf_out_int(QString(QByteArray()).isNull()); vf_out_int(a.mid(100).isNull()); vf_out_int(a.mid(a.size()).isNull()); vf_out_int(a.left(0).isNull()); } break;
    case 22: { QStringList l; l << a << b << QStringLiteral("m"); std::sort(l.begin(), l.end()); for (const auto &x : l) out_str(x); l.removeFirst(); vf_out_int(l.size()); out_str(l.first()); break; }
    case 23: { int c = qstrcmp(a.toLatin1().constData(), "default"); vf_out_int(c < 0 ? -1 : c > 0 ? 1 : 0); } vf_out_int(qstrcmp(a.toLatin1().constData(), b.toLatin1().constData()) < 0); vf_out_int((int)qstrlen(a.toLatin1().constData())); break;
    case 24: { QString c = a; c.insert(0, b); out_str(c); QString d = QStringLiteral("^") + a + QStringLiteral("$"); out_str(d); vf_out_int(a == QLatin1String("ab")); vf_out_int(a.startsWith(QLatin1String("a "))); vf_out_int(a == "ab"); break; }
    case 25: { bool ok; uint v = a.toUInt(&ok); vf_out_int(ok); vf_out_int(ok ? v : 0); QString t = b.trimmed(); vf_out_int(t.toInt()); break; }
    case 26: { QString c = a; c.replace("\\*", ".*"); out_str(c); QString d = a; d.replace(";", "\n"); out_str(d); break; }
    case 27: { QSet<int> s { 1, 2, 3 }; vf_out_int(s.contains(i)); QFlags<Qt::SplitBehaviorFlags> f; vf_out_int(f.testFlag(Qt::SkipEmptyParts)); break; }
    }
}
