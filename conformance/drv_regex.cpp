// conformance driver: the regex model vs the real QRegularExpression on every expression of the repository
#include "vf_prelude.h"
#include "vf_util.h"
extern "C" void vf_out_int(long long v);
static void out_str(const QString &s) { vf_out_int(s.isNull() ? -1 : s.size()); for (int i = 0; i < s.size(); ++i) vf_out_int(s.at(i).unicode()); }
static void out_match(const QRegularExpressionMatch &m, int ncap)
{
    vf_out_int(m.hasMatch());
    if (m.hasMatch()) { vf_out_int(m.capturedStart(0)); vf_out_int(m.capturedEnd(0)); for (int g = 1; g <= ncap; ++g) out_str(m.captured(g)); }
}
extern "C" void h_conf_regex()
{
    int which = vf_range(0, 11);
    vf_out_int(which);
    if (which >= 10) {
        // rotated-file-name expressions (deterministic-scan fragment of the model) on structured names with random edits
        static const unsigned short menu[] = { 'a', '.', '-', '0', '1', '9', 'l', 'g', 'z', '2', '4', '5', 'x', '\\' };
        static const char *dates[] = { "2024-05-10", "2024-05-11", "2024-5-10", "20240510", "2024-05-1" };
        static const char *idx[] = { "1", "9", "10", "007", "", "1x", "12345" };
        static const char *tails[] = { ".l", ".l.gz", "", ".gz", ".l.gzz", ".lx", ".l.g" };
        int di = vf_range(0, 4); int ii = vf_range(0, 6); int ti = vf_range(0, 6);
        QString subj = QStringLiteral("a.") + QString::fromLatin1(dates[di]) + QStringLiteral(".") + QString::fromLatin1(idx[ii]) + QString::fromLatin1(tails[ti]);
        int nedit = vf_range(0, 2);
        for (int e = 0; e < 2; ++e) {
            int pos = vf_range(0, 24); int k = vf_range(0, 13); int op = vf_range(0, 2);
            if (e < nedit && pos <= subj.size()) {
                if (op == 0) subj.insert(pos, QString(QChar(menu[k])));
                else if (op == 1 && pos < subj.size()) subj.remove(pos, 1);
                else if (pos < subj.size()) { subj.remove(pos, 1); subj.insert(pos, QString(QChar(menu[k]))); }
            }
        }
        int form = vf_range(0, 3);
        QString pattern;
        if (form == 0) pattern = QStringLiteral("^%1\\.%2\\.(\\d+)\\.%3(\\.gz)?$").arg(QRegularExpression::escape(QStringLiteral("a")), QRegularExpression::escape(QStringLiteral("2024-05-10")), QRegularExpression::escape(QStringLiteral("l")));
        else if (form == 1) pattern = QStringLiteral("^%1\\.\\d{4}-\\d{2}-\\d{2}\\.\\d+\\.%2(\\.gz)?$").arg(QRegularExpression::escape(QStringLiteral("a")), QRegularExpression::escape(QStringLiteral("l")));
        else if (form == 2) pattern = QStringLiteral("^%1\\.%2\\.(\\d+)(\\.gz)?$").arg(QRegularExpression::escape(QStringLiteral("a")), QRegularExpression::escape(QStringLiteral("2024-05-10")));
        else pattern = QStringLiteral("^%1\\.\\d{4}-\\d{2}-\\d{2}\\.\\d+(\\.gz)?$").arg(QRegularExpression::escape(QStringLiteral("a")));
        out_str(subj);
        auto re = QRegularExpression(pattern);
        out_match(re.match(subj), (form == 0 || form == 2) ? 2 : 1);
        return;
    }
    if (which == 0 || which == 1) {
        static const unsigned short menu[] = { 'a', '.', '=', ' ', 't', 'r', 'u', 'e', 'd', 'b', 'g', '*', 'f', 'l', 's', 'i', 'n', 'o', '\t' };
        QString subj;
        if (which == 0) subj = vf_string_menu(14, menu, 19);
        else {
            // structured: cat [.type] ws = ws bool ws
            static const char *cats[] = { "a", "a.b", "a.debug", "*", "a=b", "x.info.y" };
            static const char *types[] = { "", ".debug", ".info", ".warning", ".critical", ".fatal" };
            static const char *vals[] = { "true", "false", "maybe", "true " };
            // (one nondet call per statement: operand evaluation order differs between compilers)
            bool lead = vf_nondet_bool(); int ci = vf_range(0, 5); int ti = vf_range(0, 5); bool sp = vf_nondet_bool(); int vi = vf_range(0, 3);
            subj = QString::fromLatin1(lead ? " " : "") + QString::fromLatin1(cats[ci]) + QString::fromLatin1(types[ti])
                   + QString::fromLatin1(sp ? " = " : "=") + QString::fromLatin1(vals[vi]);
        }
        const auto re = QRegularExpression(R"(^\s*(\S+?)(?:\.(debug|info|warning|critical))?\s*=\s*(true|false)\s*$)");
        out_str(subj);
        out_match(re.match(subj), 3);
    } else if (which == 2) {
        static const unsigned short menu[] = { 'a', 'b', '.', '*', '+', '(', '_', '1' };
        QString cat = vf_string_menu(4, menu, 8);
        QString subj = vf_string_menu(5, menu, 8);
        QString esc = QRegularExpression::escape(cat);
        out_str(esc);
        esc.replace("\\*", ".*");
        auto re = QRegularExpression("^" + esc + "$");
        out_match(re.match(subj), 0);
    } else if (which == 3 || which == 4) {
        static const char *names[] = { "app.2024-05-10.1.log", "app.2024-05-10.12.log.gz", "app.2024-05-11.1.log", "app.log", "app.2024-05-10.1.log.bak", "xapp.2024-05-10.1.log",
                                       "app.2024-05-10..log", "app2.2024-05-10.1.log", "app.2024-05-10.007.log", "app.2024-05-10.1.logx", "app.2024-5-10.1.log", "app.2024-05-10.1.log.gz.gz" };
        QString subj = QString::fromLatin1(names[vf_range(0, 11)]);
        QString pattern = which == 3
            ? QStringLiteral("^%1\\.%2\\.(\\d+)\\.%3(\\.gz)?$").arg(QRegularExpression::escape(QStringLiteral("app")), QRegularExpression::escape(QStringLiteral("2024-05-10")), QRegularExpression::escape(QStringLiteral("log")))
            : QStringLiteral("^%1\\.\\d{4}-\\d{2}-\\d{2}\\.\\d+\\.%2(\\.gz)?$").arg(QRegularExpression::escape(QStringLiteral("app")), QRegularExpression::escape(QStringLiteral("log")));
        out_str(pattern);
        auto re = QRegularExpression(pattern);
        out_match(re.match(subj), which == 3 ? 2 : 1);
    } else if (which == 5) {
        static const unsigned short menu[] = { 0x1b, '[', '0', ';', 'm', 'x', '9', '1' };
        QString s = vf_string_menu(10, menu, 8);
        static const QRegularExpression ansiEscape(QStringLiteral("\033\\[[0-9;]*m"));
        out_str(s);
        s.remove(ansiEscape);
        out_str(s);
    } else if (which == 6) {
        // suffix-less file names
        static const char *names[] = { "app.2024-05-10.1", "app.2024-05-10.3.gz", "app", "app.2024-05-10.x", "app.2024-05-10.10" };
        QString subj = QString::fromLatin1(names[vf_range(0, 4)]);
        QString pattern = QStringLiteral("^%1\\.%2\\.(\\d+)(\\.gz)?$").arg(QRegularExpression::escape(QStringLiteral("app")), QRegularExpression::escape(QStringLiteral("2024-05-10")));
        auto re = QRegularExpression(pattern);
        out_match(re.match(subj), 2);
    } else {
        // RegExpFilter menu
        static const char *pats[] = { "err", "^a.*b$", "\\d+", "^$", ".*", "^\\s*$", "a+b?", "[a-c]x", "^(ab)?c" };
        static const unsigned short menu[] = { 'a', 'b', 'c', 'x', '1', ' ', 'e', 'r' };
        QString subj = vf_nondet_bool() ? QString() : vf_string_menu(6, menu, 8);
        int k = vf_range(0, 8);
        vf_out_int(k);
        auto re = QRegularExpression(QString::fromLatin1(pats[k]));
        out_str(subj);
        out_match(re.match(subj), k == 8 ? 1 : 0);
    }
}

// flat fragment (-DQM_RX_FLAT in the model build): category-rule expressions and flat RegExpFilter expressions
extern "C" void h_conf_flat()
{
    static const unsigned short menu[] = { 'a', 'b', '.', '*', '+', '(', '_', '1', '?', '\\' };
    int which = vf_range(0, 2);
    QString cat = vf_string_menu(4, menu, 10);
    QString subj = vf_string_menu(5, menu, 10);
    vf_out_int(which); out_str(cat); out_str(subj);
    if (which == 0) {
        QString esc = QRegularExpression::escape(cat);
        esc.replace("\\*", ".*");
        auto re = QRegularExpression("^" + esc + "$");
        vf_out_int(re.match(subj).hasMatch());
    } else if (which == 1) {
        // what a missing escape() would build: metacharacters of the category are live
        static const unsigned short menu2[] = { 'a', 'b', '.', '*', '+', '_', '?' };
        QString raw = vf_string_menu(4, menu2, 7);
        // keep it a valid expression: no leading quantifier, no stacked quantifiers
        bool ok = true; bool prevQ = true;
        for (int i = 0; i < raw.size(); ++i) { ushort c = raw.at(i).unicode(); bool q = c == '*' || c == '+' || c == '?'; if (q && prevQ) ok = false; prevQ = q; }
        out_str(raw);
        if (ok) { auto re = QRegularExpression("^" + raw + "$"); vf_out_int(re.match(subj).hasMatch()); }
    } else {
        static const char *pats[] = { "err", "^a.*b$", "^$", ".*", "a+b?", "a.b", "b$" };
        int k = vf_range(0, 6);
        vf_out_int(k);
        auto re = QRegularExpression(QString::fromLatin1(pats[k]));
        vf_out_int(re.match(subj).hasMatch());
    }
}

// wildcardToRegularExpression (flat mode)
extern "C" void h_conf_wild()
{
    static const unsigned short menu[] = { 'a', 'b', '.', '*', '?', '/', '+', '(' };
    QString w = vf_string_menu(4, menu, 8);
    QString subj = vf_string_menu(5, menu, 8);
    out_str(w); out_str(subj);
    QString rx = QRegularExpression::wildcardToRegularExpression(w);
    out_str(rx);
    vf_out_int(QRegularExpression(rx).match(subj).hasMatch());
}
