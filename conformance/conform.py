"""vf conform: differential test of the Qt model (through the same clang->ll2c route the checks use, compiled by gcc)
against the real Qt, on seeded random nondet streams.  A disagreement fails (exit 1)."""
import os, sys, subprocess, random, shutil
DRIVERS = [
    # (source, function, defines, runs)
    ('drv_regex.cpp', 'h_conf_regex', {'QM_STR_CAP': 64, 'QM_LIST_CAP': 4, 'QM_HASH_CAP': 4}, 2500),
    ('drv_regex.cpp', 'h_conf_flat', {'QM_STR_CAP': 24, 'QM_LIST_CAP': 4, 'QM_HASH_CAP': 4, 'QM_RX_FLAT': 1}, 800),
    ('drv_regex.cpp', 'h_conf_wild', {'QM_STR_CAP': 40, 'QM_LIST_CAP': 4, 'QM_HASH_CAP': 4, 'QM_RX_FLAT': 1}, 500),
    ('drv_string.cpp', 'h_conf_string', {'QM_STR_CAP': 24, 'QM_LIST_CAP': 8, 'QM_HASH_CAP': 4}, 1500),
]
QT_INC = ['-isystem', '/usr/include/x86_64-linux-gnu/qt5', '-isystem', '/usr/include/x86_64-linux-gnu/qt5/QtCore', '-isystem', '/usr/lib/x86_64-linux-gnu/qt5/mkspecs/linux-g++']
OUT_RT = 'extern "C" void vf_out_int(long long v) { printf("%lld\\n", v); }\n'

def sh(cmd, **kw):
    return subprocess.run(cmd, stdout=subprocess.PIPE, stderr=subprocess.STDOUT, **kw)

def main(ROOT, REPO, only=None, seed=1):
    work = os.path.join(ROOT, '.work', 'conform-%d' % os.getpid())
    shutil.rmtree(work, ignore_errors=True); os.makedirs(work)
    rt = os.path.join(work, 'rt_out.cpp'); open(rt, 'w').write('#include <cstdio>\n' + OUT_RT)
    bad = 0; total = 0; limits = 0
    for src, fn, defs, runs in DRIVERS:
        if only and only not in src: continue
        sp = os.path.join(ROOT, 'conformance', src)
        if not os.path.exists(sp): continue
        D = ['-D%s=%s' % kv for kv in defs.items()]
        inc_m = ['-I', os.path.join(ROOT, 'qtmodel'), '-I', os.path.join(ROOT, 'harness', 'common'), '-I', os.path.join(REPO, 'src', 'qtlogger')]
        inc_r = ['-I', os.path.join(ROOT, 'harness', 'common'), '-I', os.path.join(REPO, 'src', 'qtlogger')]
        ll = os.path.join(work, fn + '.ll')
        r = sh(['clang++-14', '-std=c++17', '-O0', '-Xclang', '-disable-O0-optnone', '-fno-exceptions', '-w', '-DQTLOGGER_STATIC', '-DVF_CONCRETE'] + D + inc_m + ['-S', '-emit-llvm', sp, '-o', ll])
        if r.returncode: print('CONFORM build(model) failed', r.stdout.decode()[-2000:]); return 2
        r = sh(['opt-14', '-passes=function(mem2reg,simplifycfg)', '-S', ll, '-o', ll + '.o.ll'])
        r = sh([sys.executable, os.path.join(ROOT, 'll2c', 'll2c.py'), ll + '.o.ll', '-o', os.path.join(work, fn + '.c'), '--roots', fn])
        if r.returncode: print('CONFORM ll2c failed', r.stdout.decode()[-2000:]); return 2
        r = sh(['gcc', '-O1', '-w', '-c', '-I', os.path.join(ROOT, 'll2c'), os.path.join(work, fn + '.c'), '-o', os.path.join(work, fn + '.o')])
        if r.returncode: print('CONFORM gcc(model C) failed', r.stdout.decode()[-2000:]); return 2
        exe_m = os.path.join(work, fn + '_model')
        r = sh(['g++', '-O1', '-w', '-DVF_LL2C', '-DVF_HARNESS=' + fn, os.path.join(ROOT, 'replay', 'vf_rt.cpp'), rt, os.path.join(work, fn + '.o'), '-o', exe_m])
        if r.returncode: print('CONFORM link(model) failed', r.stdout.decode()[-2000:]); return 2
        exe_r = os.path.join(work, fn + '_real')
        r = sh(['g++', '-std=gnu++17', '-O1', '-w', '-fPIC', '-DVF_REAL', '-DQTLOGGER_STATIC', '-DVF_HARNESS=' + fn] + D + inc_r + QT_INC + [sp, os.path.join(ROOT, 'replay', 'vf_rt.cpp'), rt, '-o', exe_r, '-lQt5Core'])
        if r.returncode: print('CONFORM build(real) failed', r.stdout.decode()[-2000:]); return 2
        rng = random.Random(seed)
        for k in range(runs):
            vals = [rng.choice([rng.randrange(0, 4), rng.randrange(0, 20), rng.randrange(0, 70000), rng.randrange(-3, 3)]) for _ in range(80)]
            vf = os.path.join(work, 'vals.txt'); open(vf, 'w').write(' '.join(map(str, vals)))
            env = dict(os.environ, VF_REPLAY_FILE=vf)
            a = subprocess.run([exe_m], env=env, stdout=subprocess.PIPE, stderr=subprocess.DEVNULL).stdout.decode(); b = subprocess.run([exe_r], env=env, stdout=subprocess.PIPE, stderr=subprocess.DEVNULL).stdout.decode()
            if 'VF_ASSUME_FALSE' in a or 'VF_ASSUME_FALSE' in b:
                limits += 1; continue        # input rejected by the driver's own assumptions or outside the model (QM_LIMIT)
            total += 1
            if a != b:
                bad += 1
                if bad <= 5:
                    print('CONFORM DISAGREE %s run %d\n values: %s\n model: %s\n real : %s' % (fn, k, vals[:30], a.split(), b.split()))
    print('conform: %d comparisons, %d disagreements, %d skipped (assumptions/model limits)' % (total, bad, limits))
    shutil.rmtree(work, ignore_errors=True)
    return 1 if bad else 0
