/* ll2c_rt.h -- runtime shims when ll2c output is compiled by gcc (conformance / replay), not CBMC */
#include <assert.h>
#include <stdio.h>
void vf_rt_assert(int c, const char *msg);
void vf_rt_assume(int c);
#define __CPROVER_assert(c, m) vf_rt_assert(!!(c), m)
#define __CPROVER_assume(c) vf_rt_assume(!!(c))
#define __CPROVER_atomic_begin() ((void)0)
#define __CPROVER_atomic_end() ((void)0)
