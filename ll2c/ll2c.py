#!/usr/bin/env python3
"""ll2c spike: translate LLVM-14 textual IR (typed pointers, -O1, no exceptions) to C for CBMC."""
import re, sys

TOK = re.compile(r'''
    (?P<ws>\s+)
  | (?P<str>c"(?:[^"\\]|\\[0-9A-Fa-f]{2}|\\\\)*")
  | (?P<qid>[%@]"(?:[^"\\]|\\.)*")
  | (?P<id>[%@][-a-zA-Z$._0-9]+)
  | (?P<dq>"(?:[^"\\]|\\.)*")
  | (?P<comdat>\$(?:"[^"]*"|[-a-zA-Z$._0-9]+))
  | (?P<meta>![-a-zA-Z$._0-9]*(?:\([^)]*\))?)
  | (?P<attrgrp>\#\d+)
  | (?P<fp>-?\d+\.\d+(?:e[+-]?\d+)?|0x[0-9A-Fa-f]+)
  | (?P<num>-?\d+)
  | (?P<word>[a-zA-Z_][a-zA-Z_0-9.]*)
  | (?P<dots>\.\.\.)
  | (?P<p>[()\[\]{}<>,=*:|])
''', re.X)

def tokenize(s):
    out = []
    i = 0
    while i < len(s):
        if s[i] == ';':
            break
        m = TOK.match(s, i)
        if not m:
            raise SyntaxError('tok: ' + s[i:i+40])
        i = m.end()
        k = m.lastgroup
        if k == 'ws':
            continue
        out.append((k, m.group(k)))
    return out

# ---------- types ----------
class Ty:
    pass
class TInt(Ty):
    def __init__(s, w): s.w = w
    def __repr__(s): return 'i%d' % s.w
class TVoid(Ty):
    def __repr__(s): return 'void'
class TFloat(Ty):
    def __init__(s, k): s.k = k
    def __repr__(s): return s.k
class TPtr(Ty):
    def __init__(s, t): s.t = t
    def __repr__(s): return '%r*' % s.t
class TArr(Ty):
    def __init__(s, n, t): s.n = n; s.t = t
    def __repr__(s): return '[%d x %r]' % (s.n, s.t)
class TStruct(Ty):
    def __init__(s, fields, packed, name=None): s.fields = fields; s.packed = packed; s.name = name
    def __repr__(s): return s.name or ('{' + ','.join(map(repr, s.fields)) + '}')
class TNamed(Ty):
    def __init__(s, name): s.name = name
    def __repr__(s): return s.name
class TFn(Ty):
    def __init__(s, ret, args, va): s.ret = ret; s.args = args; s.va = va
    def __repr__(s): return '%r(%s)' % (s.ret, ','.join(map(repr, s.args)))
class TOther(Ty):
    def __init__(s, k): s.k = k
    def __repr__(s): return s.k

PARAM_ATTRS = {'noundef', 'nonnull', 'nocapture', 'readonly', 'writeonly', 'noalias', 'signext', 'zeroext',
               'returned', 'immarg', 'inreg', 'nest', 'readnone', 'nofree', 'swiftself', 'noalias'}

class P:
    def __init__(s, toks): s.t = toks; s.i = 0
    def peek(s, k=0): return s.t[s.i + k] if s.i + k < len(s.t) else (None, None)
    def next(s): x = s.t[s.i]; s.i += 1; return x
    def accept(s, v):
        if s.peek()[1] == v: s.i += 1; return True
        return False
    def expect(s, v):
        x = s.next()
        if x[1] != v: raise SyntaxError('expected %r got %r in %r' % (v, x, s.t[max(0, s.i-8):s.i+4]))
    def eof(s): return s.i >= len(s.t)

    def ty(s):
        k, v = s.next()
        if k == 'word':
            if v == 'void': t = TVoid()
            elif re.fullmatch(r'i\d+', v): t = TInt(int(v[1:]))
            elif v in ('float', 'double', 'x86_fp80', 'half'): t = TFloat(v)
            elif v in ('metadata', 'label', 'token'): t = TOther(v)
            elif v == 'opaque': t = TStruct(None, False)
            else: raise SyntaxError('type word ' + v)
        elif k in ('id', 'qid'):
            t = TNamed(v)
        elif v == '{':
            fs = []
            if not s.accept('}'):
                while True:
                    fs.append(s.ty())
                    if s.accept('}'): break
                    s.expect(',')
            t = TStruct(fs, False)
        elif v == '<':
            if s.peek()[1] == '{':
                s.next(); fs = []
                if not s.accept('}'):
                    while True:
                        fs.append(s.ty())
                        if s.accept('}'): break
                        s.expect(',')
                s.expect('>')
                t = TStruct(fs, True)
            else:
                raise SyntaxError('vector types unsupported')
        elif v == '[':
            n = int(s.next()[1]); s.expect('x'); e = s.ty(); s.expect(']')
            t = TArr(n, e)
        else:
            raise SyntaxError('type? %r' % v)
        while True:
            if s.accept('*'):
                t = TPtr(t)
            elif s.peek()[1] == '(' and not isinstance(t, TOther):
                # function type
                s.next(); args = []; va = False
                if not s.accept(')'):
                    while True:
                        if s.accept('...'): va = True
                        else:
                            args.append(s.ty())
                            s.skip_param_attrs()
                        if s.accept(')'): break
                        s.expect(',')
                t = TFn(t, args, va)
            else:
                break
        return t

    def skip_param_attrs(s):
        while True:
            k, v = s.peek()
            if k == 'word' and v in PARAM_ATTRS: s.next()
            elif k == 'word' and v in ('align', 'dereferenceable', 'dereferenceable_or_null'):
                s.next()
                if s.accept('('): s.next(); s.expect(')')
                else: s.next()
            elif k == 'word' and v in ('sret', 'byval', 'byref', 'inalloca', 'preallocated', 'elementtype'):
                s.next(); s.expect('('); s.ty(); s.expect(')')
            else: break

    def param_attrs(s):
        """like skip_param_attrs but returns set of interesting attrs"""
        got = {}
        while True:
            k, v = s.peek()
            if k == 'word' and v in PARAM_ATTRS: s.next()
            elif k == 'word' and v in ('align', 'dereferenceable', 'dereferenceable_or_null'):
                s.next()
                if s.accept('('): s.next(); s.expect(')')
                else: s.next()
            elif k == 'word' and v in ('sret', 'byval', 'byref', 'inalloca', 'preallocated', 'elementtype'):
                s.next(); s.expect('('); got[v] = s.ty(); s.expect(')')
            else: break
        return got

    # typed value: returns (ty, val)
    def tval(s):
        t = s.ty()
        s.skip_param_attrs()
        return t, s.val(t)

    def val(s, t):
        k, v = s.next()
        if k in ('id', 'qid'): return ('id', v)
        if k == 'num': return ('int', int(v))
        if k == 'fp': return ('fp', v)
        if k == 'str': return ('cstr', v)
        if k == 'word':
            if v in ('true', 'false'): return ('int', 1 if v == 'true' else 0)
            if v in ('null', 'undef', 'poison', 'zeroinitializer'): return (v,)
            if v in ('getelementptr',):
                s.accept('inbounds')
                s.expect('('); bt = s.ty(); s.expect(','); pt, pv = s.tval(); idx = []
                while s.accept(','):
                    s.accept('inrange')
                    idx.append(s.tval())
                s.expect(')')
                return ('cgep', bt, pt, pv, idx)
            if v in ('bitcast', 'inttoptr', 'ptrtoint', 'addrspacecast', 'trunc', 'zext', 'sext'):
                s.expect('('); ft, fv = s.tval(); s.expect('to'); tt = s.ty(); s.expect(')')
                return ('ccast', v, ft, fv, tt)
            if v in ('add', 'sub', 'mul', 'and', 'or', 'xor', 'shl', 'lshr', 'ashr'):
                while s.peek()[1] in ('nsw', 'nuw', 'exact'): s.next()
                s.expect('('); a = s.tval(); s.expect(','); b = s.tval(); s.expect(')')
                return ('cbin', v, a, b)
            if v == 'icmp':
                pred = s.next()[1]
                s.expect('('); a = s.tval(); s.expect(','); b = s.tval(); s.expect(')')
                return ('cicmp', pred, a, b)
            if v == 'select':
                s.expect('('); c = s.tval(); s.expect(','); a = s.tval(); s.expect(','); b = s.tval(); s.expect(')')
                return ('cselect', c, a, b)
            raise SyntaxError('const word ' + v)
        if v == '{' or (v == '<' and s.peek()[1] == '{'):
            if v == '<': s.next()
            elems = []
            if not s.accept('}'):
                while True:
                    elems.append(s.tval())
                    if s.accept('}'): break
                    s.expect(',')
            if v == '<': s.expect('>')
            return ('cstruct', elems)
        if v == '[':
            elems = []
            if not s.accept(']'):
                while True:
                    elems.append(s.tval())
                    if s.accept(']'): break
                    s.expect(',')
            return ('carr', elems)
        raise SyntaxError('val? %r %r' % (k, v))


def cname(n):
    n = n[1:]
    if n.startswith('"'): n = n[1:-1]
    r = re.sub(r'[^A-Za-z0-9_]', lambda m: '_%02x' % ord(m.group(0)), n)
    return r


class Module:
    def __init__(s, text):
        s.named = {}      # name -> TStruct
        s.globals = []    # (name, ty, init, is_const, is_decl)
        s.gtypes = {}     # name -> type of global VALUE type (pointer adds *)
        s.funcs = []      # dict
        s.fsigs = {}      # name -> TFn
        s.ctors = []
        s.aliases = {}
        s.parse(text)

    def parse(s, text):
        lines = text.split('\n')
        i = 0
        while i < len(lines):
            ln = lines[i]
            if ln.startswith('%') or ln.startswith('%"'):
                m = re.match(r'(%(?:"[^"]*"|[-a-zA-Z$._0-9]+)) = type (.*)$', ln)
                if m:
                    p = P(tokenize(m.group(2)))
                    t = p.ty()
                    t.name = m.group(1)
                    s.named[m.group(1)] = t
            elif ln.startswith('@'):
                ma = re.match(r'(@(?:"[^"]*"|[-a-zA-Z$._0-9]+)) = .*\balias\b.*?(@(?:"[^"]*"|[-a-zA-Z$._0-9]+))\s*$', ln)
                if ma:
                    s.aliases[ma.group(1)] = ma.group(2)
                else:
                    s.parse_global(ln)
            elif ln.startswith('declare'):
                s.parse_decl(ln)
            elif ln.startswith('define'):
                body = []
                hdr = ln
                i += 1
                while lines[i] != '}':
                    body.append(lines[i]); i += 1
                s.parse_func(hdr, body)
            i += 1

    LINK = {'private', 'internal', 'available_externally', 'linkonce', 'weak', 'common', 'appending', 'extern_weak',
            'linkonce_odr', 'weak_odr', 'external', 'dso_local', 'dso_preemptable', 'unnamed_addr', 'local_unnamed_addr',
            'hidden', 'protected', 'default', 'thread_local', 'externally_initialized'}

    def parse_global(s, ln):
        p = P(tokenize(ln))
        name = p.next()[1]; p.expect('=')
        is_decl = False
        while p.peek()[1] in s.LINK:
            if p.peek()[1] in ('external', 'extern_weak'): is_decl = True
            p.next()
        kind = p.next()[1]
        assert kind in ('global', 'constant'), ln
        t = p.ty()
        init = None
        if not is_decl and not p.eof() and p.peek()[1] != ',':
            init = p.val(t)
        if name == '@llvm.global_ctors':
            for et, ev in init[1]:
                s.ctors.append(ev[1][1][1][1])
            return
        s.globals.append((name, t, init, kind == 'constant', is_decl))
        s.gtypes[name] = t

    def parse_sig(s, p):
        # after 'define'/'declare' and linkage words: ret-attrs, type, name, (params)
        while True:
            k, v = p.peek()
            if v in s.LINK or v in PARAM_ATTRS or v in ('fastcc', 'ccc', 'coldcc'): p.next()
            elif v in ('align', 'dereferenceable', 'dereferenceable_or_null'):
                p.next()
                if p.accept('('): p.next(); p.expect(')')
                else: p.next()
            else: break
        ret = p.ty()
        name = p.next()[1]
        p.expect('(')
        params = []; va = False
        if not p.accept(')'):
            while True:
                if p.accept('...'): va = True
                else:
                    t = p.ty(); at = p.param_attrs()
                    pn = None
                    if p.peek()[0] in ('id', 'qid'): pn = p.next()[1]
                    params.append((t, pn, at))
                if p.accept(')'): break
                p.expect(',')
        return ret, name, params, va

    def parse_decl(s, ln):
        p = P(tokenize(ln)); p.next()
        ret, name, params, va = s.parse_sig(p)
        s.fsigs[name] = TFn(ret, [t for t, _, _ in params], va)
        s.funcs.append(dict(name=name, ret=ret, params=params, va=va, blocks=None))

    def parse_func(s, hdr, body):
        p = P(tokenize(hdr)); p.next()
        ret, name, params, va = s.parse_sig(p)
        # unnamed params get %0.. numbering
        cnt = 0
        ps = []
        for t, pn, at in params:
            if pn is None: pn = '%%%d' % cnt
            if re.fullmatch(r'%\d+', pn): cnt = int(pn[1:]) + 1
            ps.append((t, pn, at))
        s.fsigs[name] = TFn(ret, [t for t, _, _ in ps], va)
        blocks = []
        cur = None
        first_label = '%%%d' % cnt
        j = 0
        while j < len(body):
            ln = body[j]; j += 1
            if not ln.strip(): continue
            m = re.match(r'^([-a-zA-Z$._0-9]+|"[^"]*"):', ln)
            if m:
                cur = dict(label='%' + m.group(1), insts=[]); blocks.append(cur); continue
            if cur is None:
                cur = dict(label=first_label, insts=[]); blocks.append(cur)
            # multi-line switch
            if ' switch ' in ln and ln.rstrip().endswith('['):
                while not body[j - 1].strip().endswith(']'):
                    ln += ' ' + body[j].strip(); j += 1
            cur['insts'].append(tokenize(ln))
        s.funcs.append(dict(name=name, ret=ret, params=ps, va=va, blocks=blocks))


# ---------- C emission ----------
class Emit:
    def __init__(s, m, opts):
        s.m = m; s.opts = opts
        s.out = []
        s.anon = {}   # repr -> cname for anonymous struct/array typedefs
        s.typedefs = []
        s.done_named = set()
        s.fwd = []

    def resolve(s, t):
        while isinstance(t, TNamed):
            t = s.m.named[t.name]
        return t

    def ctype(s, t):
        if isinstance(t, TVoid): return 'void'
        if isinstance(t, TInt):
            w = t.w
            if w == 1: return 'uint8_t'
            for c in (8, 16, 32, 64):
                if w <= c: return 'uint%d_t' % c
            if w <= 128: return 'unsigned __int128'
            raise NotImplementedError('int width %d' % w)
        if isinstance(t, TFloat): return {'float': 'float', 'double': 'double'}.get(t.k, 'long double')
        if isinstance(t, TPtr):
            e = t.t
            if isinstance(e, TFn): return s.fnptr_typedef(e)
            if isinstance(s.resolve(e) if isinstance(e, TNamed) else e, TStruct) and (s.resolve(e).fields is None if isinstance(e, TNamed) else False):
                return 'struct %s *' % cname(e.name)
            if isinstance(e, TInt) and e.w == 8: return 'uint8_t *'
            if isinstance(e, TStruct) and e.fields == [] and not e.name: return 'void *'
            return s.ctype(e) + ' *'
        if isinstance(t, TNamed):
            return 'struct %s' % cname(t.name)
        if isinstance(t, TStruct):
            if t.name: return 'struct %s' % cname(t.name)
            key = repr(t) + ('P' if t.packed else '')
            if key not in s.anon:
                nm = 'anon_s%d' % len(s.anon)
                s.anon[key] = nm
                s.typedefs.append(s.struct_def(nm, t))
            return 'struct ' + s.anon[key]
        if isinstance(t, TArr):
            key = repr(t)
            if key not in s.anon:
                nm = 'arr_t%d' % len(s.anon)
                s.anon[key] = nm
                et = s.ctype(t.t)
                s.typedefs.append('typedef struct %s { %s a[%d]; } %s;' % (nm, et, max(t.n, 1), nm))
            return s.anon[key]
        if isinstance(t, TFn): return s.fnptr_typedef(t)[:-0]
        raise NotImplementedError(repr(t))

    def fnptr_typedef(s, f):
        key = 'fn:' + repr(f)
        if key not in s.anon:
            nm = 'fn_t%d' % len(s.anon)
            s.anon[key] = nm
            args = ', '.join(s.ctype(a) for a in f.args) or 'void'
            if f.va: args = (args + ', ...') if f.args else ''
            s.typedefs.append('typedef %s (*%s)(%s);' % (s.ctype(f.ret), nm, args))
        return s.anon[key]

    def struct_def(s, nm, t):
        fs = []
        for i, f in enumerate(t.fields):
            fs.append('%s f%d;' % (s.ctype(f), i))
        if not fs: fs = ['uint8_t __empty;']
        return 'struct %s { %s }%s;' % (nm, ' '.join(fs), ' __attribute__((packed))' if t.packed else '')

    # arrays are wrapped in a struct {T a[N];} so they are first-class values
    def emit_types(s):
        order = []
        seen = set()
        def visit(name):
            if name in seen: return
            seen.add(name)
            t = s.m.named[name]
            if t.fields is None: return
            def deps(x):
                if isinstance(x, TNamed): visit(x.name)
                elif isinstance(x, TArr): deps(x.t)
                elif isinstance(x, TStruct) and x.fields: [deps(f) for f in x.fields]
            for f in t.fields: deps(f)
            order.append(name)
        for n in s.m.named: visit(n)
        res = []
        for n in s.m.named:
            res.append('struct %s;' % cname(n))
        for n in order:
            t = s.m.named[n]
            mark = len(s.typedefs)
            d = s.struct_def(cname(n), t)
            res.extend(s.typedefs[mark:]); del s.typedefs[mark:]
            res.append(d)
        return res

    # ----- constants -----
    def const(s, t, v):
        """C expression (or initializer) for constant v of type t"""
        k = v[0]
        rt = s.resolve(t)
        if k == 'int':
            if isinstance(rt, TInt):
                w = rt.w
                x = v[1] & ((1 << w) - 1)
                return '((%s)%dULL)' % (s.ctype(rt), x) if w <= 64 else str(x)
            return str(v[1])
        if k == 'fp':
            if v[1].startswith('0x'):
                import struct
                return repr(struct.unpack('>d', bytes.fromhex(v[1][2:].rjust(16, '0')))[0])
            return v[1]
        if k in ('null',): return '((%s)0)' % s.ctype(t)
        if k in ('undef', 'poison', 'zeroinitializer'):
            if isinstance(rt, (TInt, TFloat)): return '0'
            if isinstance(rt, TPtr): return '((%s)0)' % s.ctype(t)
            return '{0}'
        if k == 'id':
            n = v[1]
            if n.startswith('@'):
                if n in s.m.fsigs: return '((%s)&%s)' % (s.ctype(t), cname(n))
                return '((%s)&%s)' % (s.ctype(t), cname(n))
            if n in s.expr: return '(%s)' % s.expr[n]
            return s.lv(n)
        if k == 'cstr':
            raw = v[1][2:-1]
            bs = []
            i = 0
            while i < len(raw):
                if raw[i] == '\\':
                    if raw[i+1] == '\\': bs.append(92); i += 2
                    else: bs.append(int(raw[i+1:i+3], 16)); i += 3
                else: bs.append(ord(raw[i])); i += 1
            return '{{' + ','.join(map(str, bs)) + '}}'
        if k == 'carr':
            return '{{' + ','.join(s.const(et, ev) for et, ev in v[1]) + '}}'
        if k == 'cstruct':
            return '{' + ','.join(s.const(et, ev) for et, ev in v[1]) + '}'
        if k == 'cgep':
            _, bt, pt, pv, idx = v
            if pv[0] == 'id' and pv[1].startswith('@_ZTVN10__cxxabiv1'):
                return '((%s)0)' % s.ctype(t)
            return '((%s)%s)' % (s.ctype(t), s.gep_expr(bt, s.const(pt, pv), [(it, s.const(it, iv)) for it, iv in idx]))
        if k == 'ccast':
            _, op, ft, fv, tt = v
            return '((%s)%s)' % (s.ctype(tt), s.const(ft, fv)) if op in ('bitcast', 'inttoptr', 'ptrtoint', 'trunc', 'zext') else s.cast_expr(op, ft, s.const(ft, fv), tt)
        if k == 'cbin':
            _, op, (at, av), (bt, bv) = v
            return s.bin_expr(op, at, s.const(at, av), s.const(bt, bv))
        if k == 'cicmp':
            _, pred, (at, av), (bt, bv) = v
            return s.icmp_expr(pred, at, s.const(at, av), s.const(bt, bv))
        if k == 'cselect':
            _, (ct, cv), (at, av), (bt, bv) = v
            return '(%s ? %s : %s)' % (s.const(ct, cv), s.const(at, av), s.const(bt, bv))
        raise NotImplementedError(k)

    def lv(s, n): return 'v_' + cname(n)

    @staticmethod
    def deref(x):
        # *(&E) -> E   (keeps lvalues as member/index expressions, which CBMC resolves precisely)
        if x.startswith('(&') and x.endswith(')'):
            depth = 0
            for i, ch in enumerate(x):
                if ch == '(': depth += 1
                elif ch == ')':
                    depth -= 1
                    if depth == 0 and i != len(x) - 1: return '(*%s)' % x
            return '(' + x[2:-1] + ')'
        return '(*%s)' % x

    def gep_expr(s, bt, base, idx):
        # base: C expr of type bt*; idx: list of (ty, cexpr)
        def sx(it, e):
            rt = s.resolve(it)
            if isinstance(rt, TInt) and rt.w < 64 and not e.startswith('(('):
                return '(int64_t)(int%d_t)%s' % (max(8, rt.w), e)
            if isinstance(rt, TInt):
                return '(int64_t)(int%d_t)%s' % (64 if rt.w > 32 else 32 if rt.w > 16 else 16 if rt.w > 8 else 8, e)
            return e
        e = '%s[%s]' % (base, sx(*idx[0])) if idx[0][1] not in ('((uint64_t)0ULL)', '((uint32_t)0ULL)') else s.deref(base)
        cur = bt
        for it, ie in idx[1:]:
            rc = s.resolve(cur)
            if isinstance(rc, TStruct):
                m = re.search(r'\)(\d+)ULL\)', ie)
                k = int(m.group(1))
                e += '.f%d' % k
                cur = rc.fields[k]
            elif isinstance(rc, TArr):
                e += '.a[%s]' % sx(it, ie)
                cur = rc.t
            else:
                raise NotImplementedError('gep into %r' % rc)
        return '&' + e

    def sizeof(s, t):
        t = s.resolve(t)
        if isinstance(t, TInt): return (t.w + 7) // 8 if t.w <= 64 else 16
        if isinstance(t, TPtr): return 8
        if isinstance(t, TFloat): return {'float': 4, 'double': 8}.get(t.k, 16)
        if isinstance(t, TArr): return t.n * s.sizeof(t.t)
        if isinstance(t, TStruct):
            off = 0; al = 1
            for f in t.fields:
                a = 1 if t.packed else s.alignof(f)
                off = (off + a - 1) // a * a + s.sizeof(f); al = max(al, a)
            return (off + al - 1) // al * al
        raise NotImplementedError(repr(t))
    def alignof(s, t):
        t = s.resolve(t)
        if isinstance(t, TArr): return s.alignof(t.t)
        if isinstance(t, TStruct): return 1 if t.packed else max([s.alignof(f) for f in t.fields] or [1])
        return min(s.sizeof(t), 8)

    def sty(s, t):
        w = s.resolve(t).w
        for c in (8, 16, 32, 64):
            if w <= c: return 'int%d_t' % c
        return '__int128'

    def sext_to_c(s, t, e):
        """interpret e (unsigned container of width w) as signed of container width"""
        w = s.resolve(t).w
        cw = 8 if w <= 8 else 16 if w <= 16 else 32 if w <= 32 else 64 if w <= 64 else 128
        if w == cw: return '((%s)%s)' % (s.sty(t), e)
        sh = cw - w
        return '((%s)((%s)(%s << %d)) >> %d)' % (s.sty(t), s.sty(t), e, sh, sh)

    def mask(s, t, e):
        w = s.resolve(t).w
        if w in (8, 16, 32, 64, 128): return '((%s)(%s))' % (s.ctype(t), e)
        return '((%s)((%s) & %dULL))' % (s.ctype(t), e, (1 << w) - 1)

    def bin_expr(s, op, t, a, b):
        ct = s.ctype(t)
        rt = s.resolve(t)
        if isinstance(rt, TFloat):
            o = {'fadd': '+', 'fsub': '-', 'fmul': '*', 'fdiv': '/'}[op]
            return '(%s %s %s)' % (a, o, b)
        w = rt.w
        wide = 'uint64_t' if w <= 64 else 'unsigned __int128'
        if op in ('add', 'sub', 'mul', 'and', 'or', 'xor'):
            o = {'add': '+', 'sub': '-', 'mul': '*', 'and': '&', 'or': '|', 'xor': '^'}[op]
            return s.mask(t, '(%s)%s %s (%s)%s' % (wide, a, o, wide, b))
        if op == 'shl': return s.mask(t, '(%s)%s << %s' % (wide, a, b))
        if op == 'lshr': return s.mask(t, '%s >> %s' % (a, b))
        if op == 'ashr': return s.mask(t, '%s >> %s' % (s.sext_to_c(t, a), b))
        if op == 'udiv': return s.mask(t, '%s / %s' % (a, b))
        if op == 'urem': return s.mask(t, '%s %% %s' % (a, b))
        if op == 'sdiv': return s.mask(t, '%s / %s' % (s.sext_to_c(t, a), s.sext_to_c(t, b)))
        if op == 'srem': return s.mask(t, '%s %% %s' % (s.sext_to_c(t, a), s.sext_to_c(t, b)))
        raise NotImplementedError(op)

    def icmp_expr(s, pred, t, a, b):
        rt = s.resolve(t)
        o = {'eq': '==', 'ne': '!=', 'ugt': '>', 'uge': '>=', 'ult': '<', 'ule': '<=', 'sgt': '>', 'sge': '>=', 'slt': '<', 'sle': '<='}[pred]
        if isinstance(rt, TPtr):
            if pred in ('eq', 'ne'): return '((uint8_t)(%s %s %s))' % (a, o, b)
            return '((uint8_t)((uintptr_t)%s %s (uintptr_t)%s))' % (a, o, b)
        if pred[0] == 's':
            return '((uint8_t)(%s %s %s))' % (s.sext_to_c(t, a), o, s.sext_to_c(t, b))
        return '((uint8_t)(%s %s %s))' % (a, o, b)

    def cast_expr(s, op, ft, e, tt):
        if op == 'sext':
            return s.mask(tt, '(%s)%s' % (s.sty(tt), s.sext_to_c(ft, e)))
        if op in ('zext', 'trunc'):
            return s.mask(tt, e)
        if op in ('bitcast',):
            rf, rtt = s.resolve(ft), s.resolve(tt)
            if isinstance(rf, TPtr) and isinstance(rtt, TPtr): return '((%s)%s)' % (s.ctype(tt), e)
            raise NotImplementedError('bitcast %r -> %r' % (ft, tt))
        if op == 'ptrtoint': return s.mask(tt, '(uintptr_t)%s' % e)
        if op == 'inttoptr': return '((%s)(uintptr_t)%s)' % (s.ctype(tt), e)
        if op in ('sitofp',): return '((%s)%s)' % (s.ctype(tt), s.sext_to_c(ft, e))
        if op in ('uitofp', 'fpext', 'fptrunc'): return '((%s)%s)' % (s.ctype(tt), e)
        if op == 'fptosi': return s.mask(tt, '(%s)%s' % (s.sty(tt), e))
        if op == 'fptoui': return s.mask(tt, '(%s)%s' % (s.ctype(tt), e))
        raise NotImplementedError(op)

    # ----- module -----
    def refs_in_tokens(s, toks):
        return [v for k, v in toks if k in ('id', 'qid') and v.startswith('@')]

    def refs_in_const(s, v, out):
        if not isinstance(v, tuple): return
        if v and v[0] == 'id' and isinstance(v[1], str) and v[1].startswith('@'):
            out.add(v[1])
        for x in v:
            if isinstance(x, tuple): s.refs_in_const(x, out)
            elif isinstance(x, list):
                for y in x:
                    if isinstance(y, tuple): s.refs_in_const(y, out)

    def reachable(s, roots):
        m = s.m
        fbyname = {f['name']: f for f in m.funcs}
        gbyname = {g[0]: g for g in m.globals}
        seen = set(); work = list(roots)
        while work:
            n = work.pop()
            n = m.aliases.get(n, n)
            if n in seen: continue
            seen.add(n)
            if n in fbyname and fbyname[n]['blocks'] is not None:
                for b in fbyname[n]['blocks']:
                    for toks in b['insts']:
                        work.extend(s.refs_in_tokens(toks))
            elif n in gbyname:
                out = set(); s.refs_in_const(gbyname[n][2], out) if gbyname[n][2] else None
                work.extend(out)
        return seen

    def cstring_of_global(s, name):
        for g in s.m.globals:
            if g[0] == name and g[2] and g[2][0] == 'cstr':
                raw = g[2][1][2:-1]; bs = []; i = 0
                while i < len(raw):
                    if raw[i] == '\\':
                        if raw[i+1] == '\\': bs.append(92); i += 2
                        else: bs.append(int(raw[i+1:i+3], 16)); i += 3
                    else: bs.append(ord(raw[i])); i += 1
                if bs and bs[-1] == 0: bs.pop()
                return bytes(bs).decode('latin1')
        return None

    def run(s):
        m = s.m
        roots = s.opts.get('roots')
        if roots:
            keep = s.reachable(['@' + r for r in roots] + list(m.ctors))
        else:
            keep = None
        def kept(n): return keep is None or n in keep
        s.keep = keep
        body = []
        types = s.emit_types()
        # typeinfo hierarchy for __dynamic_cast
        s.tinfo = {}
        for name, t, init, is_const, is_decl in m.globals:
            if name.startswith('@_ZTI') and init and init[0] == 'cstruct':
                bases = []
                for et, ev in init[1][2:]:
                    out = set(); s.refs_in_const(ev, out)
                    bases.extend(x for x in out if x.startswith('@_ZTI'))
                s.tinfo[name] = bases
        # vtable slots for devirtualisation: slot index -> [(function name, TFn)]
        s.vtslots = {}
        for name, t, init, is_const, is_decl in m.globals:
            if name.startswith('@_ZTV') and init and init[0] == 'cstruct' and kept(name):
                for at, av in init[1]:
                    if av[0] != 'carr': continue
                    for i, (et, ev) in enumerate(av[1]):
                        if i < 2 or ev[0] != 'ccast' or ev[3][0] != 'id': continue
                        fn = ev[3][1]
                        if fn == '@__cxa_pure_virtual' or fn not in m.fsigs: continue
                        lst = s.vtslots.setdefault(i - 2, [])
                        if fn not in [x for x, _ in lst]: lst.append((fn, m.fsigs[fn]))
        # function prototypes
        protos = []
        s.stubs = []
        SKIP = ('@memcpy', '@memset', '@memmove', '@malloc', '@free', '@strlen', '@vf_assume', '@vf_assert', '@vf_witness', '@vf_note',
                '@__dynamic_cast', '@__cxa_guard_acquire', '@__cxa_guard_release', '@__cxa_guard_abort', '@_Znwm', '@_Znam', '@_ZdlPv', '@_ZdaPv', '@_ZdlPvm', '@abort', '@__cxa_atexit', '@__cxa_pure_virtual')
        for f in m.funcs:
            n = f['name']
            if n.startswith('@llvm.') or n in SKIP or n.startswith('@vf_nondet_'): continue
            if not kept(n): continue
            args = ', '.join('%s %s' % (s.ctype(t), s.lv(pn) if pn else '') for t, pn, _ in f['params']) or 'void'
            if f['va']: args += ', ...'
            protos.append('%s %s(%s);' % (s.ctype(f['ret']), cname(n), args))
            if f['blocks'] is None and not n.startswith('@vf_'):
                s.stubs.append(n)
        for a, tgt in m.aliases.items():
            protos.append('#define %s %s' % (cname(a), cname(tgt)))
        # globals
        gl_decl = []
        gl_def = []
        for name, t, init, is_const, is_decl in m.globals:
            if not kept(name): continue
            ct = s.ctype(t)
            gl_decl.append('extern %s %s;' % (ct, cname(name)))
            if not is_decl:
                gl_def.append('%s %s = %s;' % (ct, cname(name), s.const(t, init) if init else '{0}'))
            elif name.startswith('@_ZTVN10__cxxabiv1'):
                gl_def.append('%s %s;' % (ct, cname(name)))      # libsupc++ type_info vtables: referenced by address only
            # other external globals (e.g. __dso_handle) stay declarations
        for f in m.funcs:
            if f['blocks'] is not None and kept(f['name']):
                body.extend(s.func(f))
        # dynamic_cast support: derives(ti, dst)
        dc = ['static int ll2c_derives(const void *ti, const void *dst) {']
        def ancestors(n, acc):
            if n in acc: return
            acc.append(n)
            for b in s.tinfo.get(n, []): ancestors(b, acc)
        for n in s.tinfo:
            if not kept(n): continue
            acc = []; ancestors(n, acc)
            acc = [a for a in acc if kept(a)]
            dc.append('  if (ti == (const void*)&%s) return %s;' % (cname(n), ' || '.join('dst == (const void*)&%s' % cname(a) for a in acc)))
        dc.append('  __CPROVER_assert(0, "ll2c: dynamic_cast on object of unknown dynamic type"); return 0; }')
        dc.append('static uint8_t *ll2c_dynamic_cast(uint8_t *p, const void *src, const void *dst) { if (!p) return 0; uint8_t ***vp = (uint8_t***)p; uint8_t **vt = *vp; const void *ti = (const void*)vt[-1]; (void)src; return ll2c_derives(ti, dst) ? p : (uint8_t*)0; }')
        # stubs for external functions
        st = []
        for n in s.stubs:
            f = [f for f in m.funcs if f['name'] == n][0]
            args = ', '.join('%s a%d' % (s.ctype(t), i) for i, (t, pn, _) in enumerate(f['params'])) or 'void'
            if f['va']: args += ', ...'
            rt = s.ctype(f['ret'])
            if rt == 'void': st.append('%s %s(%s) { }' % (rt, cname(n), args))
            else: st.append('%s %s(%s) { %s r; return r; } /* external stub: nondet result */' % (rt, cname(n), args, rt))
        # ctors
        body.append('void __ll2c_global_ctors(void) { %s }' % ' '.join('%s();' % cname(c) for c in m.ctors if kept(c)))
        hdr = ['#include <stdint.h>', '#include <stddef.h>', '#include <string.h>', '#include <stdlib.h>',
               '#ifndef __CPROVER__', '#include "ll2c_rt.h"', '#endif',
               'extern int vf_nd_count; extern long long vf_nd_val; extern unsigned char vf_nd_ok;',
               '#ifdef __CPROVER__',
               'int nondet_int(void); unsigned nondet_uint(void); unsigned short nondet_ushort(void); unsigned char nondet_uchar(void); long long nondet_longlong(void);',
               'static uint32_t vf_nondet_int(void) { return (uint32_t)nondet_int(); } static uint32_t vf_nondet_uint(void) { return nondet_uint(); }',
               'static uint16_t vf_nondet_u16(void) { return nondet_ushort(); } static uint8_t vf_nondet_u8(void) { return nondet_uchar(); }',
               'static uint8_t vf_nondet_bool(void) { return nondet_uchar() & 1; } static uint64_t vf_nondet_i64(void) { return (uint64_t)nondet_longlong(); }',
               '#else',
               'uint32_t vf_nondet_int(void); uint32_t vf_nondet_uint(void); uint16_t vf_nondet_u16(void); uint8_t vf_nondet_u8(void); uint8_t vf_nondet_bool(void); uint64_t vf_nondet_i64(void);',
               '#endif',
               'static void *ll2c_new(size_t n) { void *p = malloc(n); __CPROVER_assume(p != 0); return p; }',
               'static void __cxa_pure_virtual(void) { __CPROVER_assert(0, "ll2c: pure virtual call"); __CPROVER_assume(0); }',
               'static uint64_t ll2c_ctlz(uint64_t x, int w) { uint64_t n = 0; if (w < 64) x <<= (64 - w); if (x == 0) return (uint64_t)w; if (!(x >> 32)) { n += 32; x <<= 32; } if (!(x >> 48)) { n += 16; x <<= 16; } if (!(x >> 56)) { n += 8; x <<= 8; } if (!(x >> 60)) { n += 4; x <<= 4; } if (!(x >> 62)) { n += 2; x <<= 2; } if (!(x >> 63)) { n += 1; } return n; }',
               'static uint64_t ll2c_cttz(uint64_t x, int w) { uint64_t n = 0; if (x == 0) return (uint64_t)w; if (!(x & 0xffffffffull)) { n += 32; x >>= 32; } if (!(x & 0xffff)) { n += 16; x >>= 16; } if (!(x & 0xff)) { n += 8; x >>= 8; } if (!(x & 0xf)) { n += 4; x >>= 4; } if (!(x & 3)) { n += 2; x >>= 2; } if (!(x & 1)) { n += 1; } return n; }',
               'static size_t ll2c_strlen(const uint8_t *s) { size_t n = 0; while (s[n]) n++; return n; }']
        return '\n'.join(hdr + types + s.typedefs + gl_decl + protos + gl_def + dc + st + body) + '\n'

    def func(s, f):
        s.bc = {}
        s.expr = {}
        s.vtbl = set(); s.gepk = {}; s.vslot = {}
        # pre-scan: bitcast targets of each SSA value (used to give 'new T' a typed allocation)
        s.bcto = {}
        for b in f['blocks']:
            for toks in b['insts']:
                if len(toks) > 4 and toks[1][1] == '=' and toks[2][1] == 'bitcast' and toks[3][1] == 'i8' and toks[4][1] == '*' and toks[5][0] in ('id', 'qid'):
                    try:
                        p = P(toks); p.next(); p.next(); p.next(); ft, fv = p.tval(); p.expect('to'); tt = p.ty()
                        if fv[0] == 'id': s.bcto.setdefault(fv[1], []).append(tt)
                    except Exception:
                        pass
        o = []
        loc = {}   # ssa name -> ctype decl
        code = []
        m = s.m
        params = f['params']
        args = ', '.join('%s %s' % (s.ctype(t), s.lv(pn)) for t, pn, _ in params) or 'void'
        # collect phis per block
        phis = {}
        for b in f['blocks']:
            ph = []
            for toks in b['insts']:
                if len(toks) > 2 and toks[1][1] == '=' and toks[2][1] == 'phi':
                    p = P(toks); dst = p.next()[1]; p.next(); p.next()
                    t = p.ty(); inc = []
                    while True:
                        p.expect('['); v = p.val(t); p.expect(','); lbl = p.next()[1]; p.expect(']')
                        inc.append((lbl, v))
                        if not p.accept(','): break
                    ph.append((dst, t, inc))
                    loc[dst] = s.ctype(t)
            phis[b['label']] = ph

        def L(lbl): return 'L_' + cname(lbl)

        # ---- CFG, dominators, natural loops (single synthetic latch per header; exits routed via latch) ----
        labels = [b['label'] for b in f['blocks']]
        idx = {l: i for i, l in enumerate(labels)}
        succ = {}
        for b in f['blocks']:
            term = b['insts'][-1]
            ws = [v for k, v in term]
            ss = []
            for i, w in enumerate(ws):
                if w == 'label': ss.append(ws[i + 1])
            succ[b['label']] = list(dict.fromkeys(ss))
        pred = {l: [] for l in labels}
        for u, ss in succ.items():
            for v in ss: pred[v].append(u)
        entry = labels[0]
        dom = {l: set(labels) for l in labels}; dom[entry] = {entry}
        ch = True
        while ch:
            ch = False
            for l in labels[1:]:
                ps = [dom[p] for p in pred[l]]
                nd = (set.intersection(*ps) if ps else set()) | {l}
                if nd != dom[l]: dom[l] = nd; ch = True
        loops = {}   # header -> set(body)
        for u in labels:
            for h in succ[u]:
                if h in dom[u]:
                    body = loops.setdefault(h, {h})
                    st = [u]
                    while st:
                        x = st.pop()
                        if x not in body:
                            body.add(x); st.extend(pred[x])
        lid = {h: i for i, h in enumerate(loops)}
        nested = {h: any(h2 != h and h in loops[h2] for h2 in loops) for h in loops}
        latch_after = {}   # label after which latch code of loop(s) is emitted
        for h, body in loops.items():
            last = max(body, key=lambda l: idx[l])
            latch_after.setdefault(last, []).append(h)
        exit_edges = {}    # (frm,to) -> id
        latch_cases = {h: [] for h in loops}
        def loops_of(l):
            # loops containing l, inner -> outer (by body size)
            return sorted([h for h, b in loops.items() if l in b], key=lambda h: len(loops[h]))

        def phi_in(frm, to):
            st = []
            for dst, t, inc in phis.get(to, []):
                v = [v for l, v in inc if l == frm]
                assert v, (f['name'], frm, to)
                st.append('%s = %s;' % (s.lv(dst) + '_in', s.const(t, v[0])))
                loc[dst + '_in'] = s.ctype(t)
            return st
        def phi_commit(to):
            return ['%s = %s;' % (s.lv(dst), s.lv(dst) + '_in') for dst, t, inc in phis.get(to, [])]

        def jump(frm, to):
            st = phi_in(frm, to)
            if to in loops and frm in loops[to]:
                # back-edge: through the synthetic latch of loop `to`
                loc['%%__exit%d' % lid[to]] = 'int'
                return '{ ' + ' '.join(st) + ' v___exit%d = 0; goto LATCH_%d; }' % (lid[to], lid[to])
            leaving = [h for h in loops_of(frm) if to not in loops[h]]
            # exits of a loop that is not nested in another loop go straight to their target: this keeps
            # constant-bounded loops with symbolic early exits constant-bounded for CBMC's symex.  Loops nested
            # in another loop are left through their latch (CBMC resets a loop's unwinding counter only when
            # the back-edge's own condition fails).
            leaving = [h for h in leaving if nested[h]]
            st += phi_commit(to)
            if not leaving:
                return '{ ' + ' '.join(st) + ' goto %s; }' % L(to)
            e = exit_edges.setdefault((frm, to), len(exit_edges) + 1)
            for i, h in enumerate(leaving):
                nxt = ('v___exit%d = %d; goto LATCH_%d;' % (lid[leaving[i + 1]], e, lid[leaving[i + 1]])) if i + 1 < len(leaving) else 'goto %s;' % L(to)
                c = 'case %d: %s' % (e, nxt)
                if c not in latch_cases[h]: latch_cases[h].append(c)
                loc['%%__exit%d' % lid[h]] = 'int'
            return '{ ' + ' '.join(st) + ' v___exit%d = %d; goto LATCH_%d; }' % (lid[leaving[0]], e, lid[leaving[0]])

        for t, pn, at in params:
            if 'byval' in at:
                bt = at['byval']
                code.append('%s %s_byval = *%s; %s = &%s_byval;' % (s.ctype(bt), s.lv(pn), s.lv(pn), s.lv(pn), s.lv(pn)))

        pending_latches = []
        for b in f['blocks']:
            code.append('%s: ;' % L(b['label']))
            for toks in b['insts']:
                c = s.inst(f, b, toks, loc, jump)
                if c: code.append('  ' + c)
            # inner loops first (smaller bodies) so that nesting in the file is proper
            for h in sorted(latch_after.get(b['label'], []), key=lambda h: len(loops[h])):
                code.append(('LATCH', h))
        out2 = []
        for c in code:
            if isinstance(c, tuple):
                h = c[1]; k = lid[h]
                out2.append('LATCH_%d: ;' % k)
                if not nested[h]:
                    out2.append('  { %s goto %s; }' % (' '.join(phi_commit(h)), L(h)))
                else:
                    # the backward goto must itself be the conditional jump: CBMC resets a loop's unwinding counter only when
                    # it meets the backward goto with a false condition
                    pc = ' '.join(phi_commit(h))
                    if pc: out2.append('  if (v___exit%d == 0) { %s }' % (k, pc))
                    out2.append('  if (v___exit%d == 0) goto %s;' % (k, L(h)))
                    out2.append('  switch (v___exit%d) { %s default: __CPROVER_assert(0, "ll2c: bad loop exit"); __CPROVER_assume(0); }' % (k, ' '.join(latch_cases[h])))
            else:
                out2.append(c)
        code = out2
        o.append('%s %s(%s) {' % (s.ctype(f['ret']), cname(f['name']), args))
        for n, ct in loc.items():
            if ct.startswith('ALLOCA:'):
                continue
            o.append('  %s %s;' % (ct, s.lv(n)))
        o.extend(code)
        o.append('}')
        return o

    def inst(s, f, b, toks, loc, jump):
        p = P(toks)
        dst = None
        if p.peek(1)[1] == '=':
            dst = p.next()[1]; p.next()
        op = p.next()[1]
        if op in ('tail', 'musttail', 'notail'): op = p.next()[1]
        def setv(t, e):
            loc[dst] = s.ctype(t)
            return '%s = %s;' % (s.lv(dst), e)
        def V(t, v): return s.const(t, v)
        if op == 'phi': return None
        if op == 'ret':
            t = p.ty()
            if isinstance(t, TVoid): return 'return;'
            return 'return %s;' % V(t, p.val(t))
        if op == 'br':
            if p.peek()[1] == 'label':
                p.next(); return jump(b['label'], p.next()[1])
            t, c = p.tval(); p.expect(','); p.expect('label'); a = p.next()[1]; p.expect(','); p.expect('label'); bb = p.next()[1]
            return 'if (%s) %s else %s' % (V(t, c), jump(b['label'], a), jump(b['label'], bb))
        if op == 'switch':
            t, c = p.tval(); p.expect(','); p.expect('label'); d = p.next()[1]; p.expect('[')
            cs = []
            while not p.accept(']'):
                ct, cv = p.tval(); p.expect(','); p.expect('label'); cl = p.next()[1]
                cs.append('case %s: %s' % (V(ct, cv), jump(b['label'], cl)))
            return 'switch (%s) { %s default: %s }' % (V(t, c), ' '.join(cs), jump(b['label'], d))
        if op == 'unreachable':
            return '__CPROVER_assert(0, "ll2c: reached LLVM unreachable"); __CPROVER_assume(0);'
        if op == 'alloca':
            t = p.ty()
            n = None
            if p.accept(','):
                if p.peek()[1] != 'align':
                    nt, nv = p.tval(); n = V(nt, nv)
            ct = s.ctype(t)
            loc[dst] = ct + ' *'
            loc[dst + '.slot'] = 'ALLOCA:'
            if n: raise NotImplementedError('dynamic alloca')
            # allocas in loops would need fresh storage; -O1 hoists static allocas to entry
            return 'static_assert_dummy: ; %s %s_slot; %s = &%s_slot;' % (ct, s.lv(dst), s.lv(dst), s.lv(dst)) if False else '%s = &%s_slot;' % (s.lv(dst), s.lv(dst)) + s.decl_slot(loc, dst, ct)
        if op == 'load':
            p.accept('volatile'); p.accept('atomic')
            t = p.ty(); p.expect(','); pt, pv = p.tval()
            if isinstance(t, TPtr) and isinstance(t.t, TPtr) and isinstance(t.t.t, TFn): s.vtbl.add(dst)
            if isinstance(t, TPtr) and isinstance(t.t, TFn) and pv[0] == 'id':
                if pv[1] in s.gepk: s.vslot[dst] = s.gepk[pv[1]]
                elif pv[1] in s.vtbl: s.vslot[dst] = 0
            return setv(t, s.deref(V(pt, pv)))
        if op == 'store':
            p.accept('volatile'); p.accept('atomic')
            t, v = p.tval(); p.expect(','); pt, pv = p.tval()
            if v[0] in ('cstruct', 'carr') or (v[0] in ('zeroinitializer', 'undef', 'poison') and isinstance(s.resolve(t), (TStruct, TArr))):
                return '{ %s __t = %s; %s = __t; }' % (s.ctype(t), V(t, v), s.deref(V(pt, pv)))    # aggregate constant: via an initialised temporary
            return '%s = %s;' % (s.deref(V(pt, pv)), V(t, v))
        if op == 'getelementptr':
            p.accept('inbounds')
            bt = p.ty(); p.expect(','); pt, pv = p.tval(); idx = []
            while p.accept(','):
                if p.peek()[1] == 'align' or p.peek()[0] == 'meta': break
                it, iv = p.tval(); idx.append((it, V(it, iv)))
            # result type
            cur = bt
            for it, ie in idx[1:]:
                rc = s.resolve(cur)
                if isinstance(rc, TStruct): cur = rc.fields[int(re.search(r'\)(\d+)ULL\)', ie).group(1))]
                else: cur = rc.t
            if pv[0] == 'id' and pv[1] in s.vtbl and len(idx) == 1:
                mm = re.fullmatch(r'\(\(uint64_t\)(\d+)ULL\)', idx[0][1])
                if mm: s.gepk[dst] = int(mm.group(1))
            s.expr[dst] = s.gep_expr(bt, V(pt, pv), idx)
            return None
        if op in ('add', 'sub', 'mul', 'udiv', 'sdiv', 'urem', 'srem', 'shl', 'lshr', 'ashr', 'and', 'or', 'xor', 'fadd', 'fsub', 'fmul', 'fdiv'):
            flags = set()
            while p.peek()[1] in ('nsw', 'nuw', 'exact', 'fast', 'nnan', 'ninf', 'nsz', 'arcp', 'contract', 'afn', 'reassoc'): flags.add(p.next()[1])
            t, a = p.tval(); p.expect(','); bv = p.val(t)
            pre = ''
            if s.opts.get('overflow') and 'nsw' in flags and op in ('add', 'sub', 'mul') and s.resolve(t).w <= 32 and re.match(r'@"?_ZZ?NK?8QtLogger', f['name']):
                o = {'add': '+', 'sub': '-', 'mul': '*'}[op]
                w = s.resolve(t).w
                pre = '{ int64_t __r = (int64_t)%s %s (int64_t)%s; __CPROVER_assert(__r >= -(1LL<<%d) && __r < (1LL<<%d), "ll2c: signed overflow (%s nsw) in %s"); } ' % (
                    s.sext_to_c(t, V(t, a)), o, s.sext_to_c(t, V(t, bv)), w - 1, w - 1, op, cname(f['name']))
            return pre + setv(t, s.bin_expr(op, t, V(t, a), V(t, bv)))
        if op == 'icmp':
            pred = p.next()[1]; t, a = p.tval(); p.expect(','); bv = p.val(t)
            return setv(TInt(1), s.icmp_expr(pred, t, V(t, a), V(t, bv)))
        if op == 'fcmp':
            while p.peek()[1] in ('fast', 'nnan', 'ninf', 'nsz'): p.next()
            pred = p.next()[1]; t, a = p.tval(); p.expect(','); bv = p.val(t)
            o = {'oeq': '==', 'one': '!=', 'ogt': '>', 'oge': '>=', 'olt': '<', 'ole': '<=', 'ueq': '==', 'une': '!=', 'ugt': '>', 'uge': '>=', 'ult': '<', 'ule': '<='}[pred]
            return setv(TInt(1), '((uint8_t)(%s %s %s))' % (V(t, a), o, V(t, bv)))
        if op == 'select':
            ct, c = p.tval(); p.expect(','); t, a = p.tval(); p.expect(','); t2, bv = p.tval()
            return setv(t, '(%s ? %s : %s)' % (V(ct, c), V(t, a), V(t2, bv)))
        if op in ('zext', 'sext', 'trunc', 'bitcast', 'ptrtoint', 'inttoptr', 'sitofp', 'uitofp', 'fptosi', 'fptoui', 'fpext', 'fptrunc'):
            ft, fv = p.tval(); p.expect('to'); tt = p.ty()
            if op == 'bitcast' and fv[0] == 'id': s.bc[dst] = (ft, fv)
            return setv(tt, s.cast_expr(op, ft, V(ft, fv), tt))
        if op == 'freeze':
            t, v = p.tval(); return setv(t, V(t, v))
        if op == 'extractvalue':
            t, v = p.tval(); e = V(t, v); cur = t
            while p.accept(','):
                k = int(p.next()[1]); rc = s.resolve(cur)
                if isinstance(rc, TStruct): e += '.f%d' % k; cur = rc.fields[k]
                else: e += '.a[%d]' % k; cur = rc.t
            return setv(cur, e)
        if op == 'insertvalue':
            t, v = p.tval(); p.expect(','); et, ev = p.tval(); path = ''
            cur = t
            while p.accept(','):
                k = int(p.next()[1]); rc = s.resolve(cur)
                if isinstance(rc, TStruct): path += '.f%d' % k; cur = rc.fields[k]
                else: path += '.a[%d]' % k; cur = rc.t
            loc[dst] = s.ctype(t)
            base = V(t, v)
            init = ('memset(&%s, 0, sizeof %s);' % (s.lv(dst), s.lv(dst))) if base == '{0}' else '%s = %s;' % (s.lv(dst), base)
            return '%s %s%s = %s;' % (init, s.lv(dst), path, V(et, ev))
        if op == 'call':
            while p.peek()[1] in ('fastcc', 'ccc', 'coldcc') or p.peek()[1] in PARAM_ATTRS or p.peek()[1] in ('fast', 'nnan', 'ninf', 'nsz', 'arcp', 'contract', 'afn', 'reassoc'):
                p.next()
            p.skip_param_attrs()
            rt = p.ty()
            fn_t = None
            if isinstance(rt, TFn):      # explicit function type (varargs callee); a TPtr(TFn) here is a function-pointer RETURN type
                fn_t = rt; rt = fn_t.ret
            k, callee = p.next()
            p.expect('(')
            args = []
            if not p.accept(')'):
                while True:
                    at = p.ty(); p.skip_param_attrs()
                    if isinstance(at, TOther):  # metadata arg
                        while p.peek()[1] not in (',', ')'): p.next()
                        args.append(None)
                    else:
                        args.append((at, p.val(at)))
                    if p.accept(')'): break
                    p.expect(',')
            return s.call(f, dst, rt, callee, k, args, loc, setv)
        if op in ('fence',): return None
        if op == 'atomicrmw':
            p.accept('volatile'); aop = p.next()[1]; pt, pv = p.tval(); p.expect(','); t, v = p.tval()
            o = {'add': '+', 'sub': '-', 'and': '&', 'or': '|', 'xor': '^', 'xchg': None}[aop]
            ptr = V(pt, pv)
            new = V(t, v) if o is None else '(*%s %s %s)' % (ptr, o, V(t, v))
            loc[dst] = s.ctype(t)
            return '__CPROVER_atomic_begin(); %s = *%s; *%s = %s; __CPROVER_atomic_end();' % (s.lv(dst), ptr, ptr, new)
        if op == 'cmpxchg':
            p.accept('weak'); p.accept('volatile'); pt, pv = p.tval(); p.expect(','); t, cmpv = p.tval(); p.expect(','); _, newv = p.tval()
            ptr = V(pt, pv)
            st = TStruct([t, TInt(1)], False)
            loc[dst] = s.ctype(st)
            d = s.lv(dst)
            return '__CPROVER_atomic_begin(); %s.f0 = *%s; %s.f1 = (%s.f0 == %s); if (%s.f1) *%s = %s; __CPROVER_atomic_end();' % (d, ptr, d, d, V(t, cmpv), d, ptr, V(t, newv))
        raise NotImplementedError('op %s in %s' % (op, f['name']))

    def decl_slot(s, loc, dst, ct):
        loc[dst + '_slot'] = ct
        return ''

    def call(s, f, dst, rt, callee, k, args, loc, setv):
        V = s.const
        if callee.startswith('@llvm.'):
            n = callee[6:]
            if n.startswith(('lifetime.', 'invariant.', 'experimental.noalias', 'dbg.', 'assume', 'donothing')): return None
            A = [V(t, v) for (t, v) in [a for a in args if a]]
            if (n.startswith('memcpy') or n.startswith('memset')) and args[2][1][0] == 'int':
                sz = args[2][1][1]
                d = args[0][1]; 
                if d[0] == 'id' and d[1] in s.bc:
                    dt, dv = s.bc[d[1]]
                    if isinstance(dt, TPtr) and s.sizeof(dt.t) == sz and not isinstance(s.resolve(dt.t), (TInt,)):
                        if n.startswith('memset') and args[1][1] == ('int', 0):
                            return '{ static const %s __z; *%s = __z; }' % (s.ctype(dt.t), V(dt, dv))
                        sv = args[1][1]
                        if n.startswith('memcpy') and sv[0] == 'id' and sv[1] in s.bc:
                            st, svv = s.bc[sv[1]]
                            if isinstance(st, TPtr) and repr(s.resolve(st.t)) == repr(s.resolve(dt.t)):
                                return '*%s = *%s;' % (V(dt, dv), V(st, svv))
            if n.startswith('memcpy') or n.startswith('memmove'):
                return '%s((void*)%s, (void*)%s, %s);' % ('memcpy' if n.startswith('memcpy') else 'memmove', A[0], A[1], A[2])
            if n.startswith('memset'): return 'memset((void*)%s, %s, %s);' % (A[0], A[1], A[2])
            if n.startswith('trap'): return '__CPROVER_assert(0, "ll2c: llvm.trap"); __CPROVER_assume(0);'
            t = args[0][0]
            if n.startswith(('smin', 'smax')):
                o = '<' if n.startswith('smin') else '>'
                return setv(rt, '(%s %s %s ? %s : %s)' % (s.sext_to_c(t, A[0]), o, s.sext_to_c(t, A[1]), A[0], A[1]))
            if n.startswith(('umin', 'umax')):
                o = '<' if n.startswith('umin') else '>'
                return setv(rt, '(%s %s %s ? %s : %s)' % (A[0], o, A[1], A[0], A[1]))
            if n.startswith('abs'): return setv(rt, s.mask(rt, '(%s < 0 ? -%s : %s)' % (s.sext_to_c(t, A[0]), s.sext_to_c(t, A[0]), s.sext_to_c(t, A[0]))))
            if n.startswith('expect'): return setv(rt, A[0])
            if n.startswith('ctlz'): return setv(rt, s.mask(rt, 'll2c_ctlz((uint64_t)%s, %d)' % (A[0], s.resolve(t).w)))
            if n.startswith('cttz'): return setv(rt, s.mask(rt, 'll2c_cttz((uint64_t)%s, %d)' % (A[0], s.resolve(t).w)))
            if n.startswith('trap'): return '__CPROVER_assert(0, "ll2c: llvm.trap"); __CPROVER_assume(0);'
            raise NotImplementedError('intrinsic ' + n)
        A = ', '.join(V(t, v) for t, v in args)
        callee = s.m.aliases.get(callee, callee)
        if callee == '@vf_assume':
            return '__CPROVER_assume(%s);' % A
        if callee == '@vf_assert':
            msg = None
            v = args[1][1]
            if v[0] == 'cgep' and v[3][0] == 'id': msg = s.cstring_of_global(v[3][1])
            if msg is None: msg = 'assertion'
            msg = msg.replace('\\', '/').replace('"', "'")
            # (vf_nd_ok is always 1: it makes the assertion depend on the log of nondet values, so that --slice-formula keeps that
            #  log and the counterexample trace carries every input value, also those the failing property does not depend on)
            return '__CPROVER_assert(!vf_nd_ok || (%s), "%s");' % (V(*args[0]), msg)
        if callee == '@vf_witness':
            return '\n#ifdef VF_WITNESS\n__CPROVER_assert(!vf_nd_ok, "WITNESS end of harness reachable");\n#endif\n;'
        if callee == '@vf_note':
            return ';'
        if callee.startswith('@vf_nondet_'):
            loc[dst] = s.ctype(rt)
            return '%s = %s(); vf_nd_val = (long long)%s; vf_nd_count++; vf_nd_ok = vf_nd_ok & (unsigned char)(vf_nd_val == (long long)%s);' % (s.lv(dst), cname(callee), s.lv(dst), s.lv(dst))
        if callee == '@__dynamic_cast':
            return setv(rt, 'll2c_dynamic_cast(%s, (const void*)%s, (const void*)%s)' % (V(*args[0]), V(*args[1]), V(*args[2])))
        if callee == '@strlen':
            return setv(rt, 'll2c_strlen(%s)' % V(*args[0]))
        if callee in ('@abort', '@__cxa_pure_virtual'):
            return '__CPROVER_assert(0, "ll2c: abort() / pure virtual call reached"); __CPROVER_assume(0);'
        if callee == '@__cxa_atexit':
            return setv(rt, '0') if dst else ';'
        if callee == '@__cxa_guard_acquire':
            return setv(rt, '(*(uint8_t*)%s == 0)' % V(*args[0]))
        if callee == '@__cxa_guard_release':
            return '*(uint8_t*)%s = 1;' % V(*args[0])
        if callee in ('@_Znwm', '@_Znam'):
            if args[0][1][0] == 'int' and dst in s.bcto:
                for tt in s.bcto[dst]:
                    if isinstance(tt, TPtr) and not isinstance(s.resolve(tt.t), (TInt, TPtr, TFn)) and s.sizeof(tt.t) == args[0][1][1]:
                        loc[dst] = s.ctype(rt)
                        return '%s = (uint8_t*)malloc(sizeof(%s)); __CPROVER_assume(%s != 0);' % (s.lv(dst), s.ctype(tt.t), s.lv(dst))
            return setv(rt, '(uint8_t*)ll2c_new(%s)' % A)
        if callee in ('@_ZdlPv', '@_ZdaPv', '@_ZdlPvm'):
            return 'free((void*)%s);' % V(*args[0])
        if k in ('id', 'qid') and callee.startswith('@'):
            e = '%s(%s)' % (cname(callee), A)
        elif callee in s.vslot and s.opts.get('devirt', True):
            cands = []
            def compat(a, b):
                if repr(a) == repr(b): return True
                return isinstance(a, TPtr) and isinstance(b, TPtr) and isinstance(a.t, (TNamed, TStruct)) and isinstance(b.t, (TNamed, TStruct))
            for fn, ft in s.vtslots.get(s.vslot[callee], []):
                if len(ft.args) != len(args) or repr(ft.ret) != repr(rt) or ft.va: continue
                if not all(compat(a, t) for a, (t, _) in zip(ft.args, args)): continue
                cands.append((fn, ft))
            fp = s.lv(callee)
            parts = []
            for fn, ft in cands:
                al = ', '.join(('(%s)%s' % (s.ctype(a), V(t, v))) if repr(a) != repr(t) else V(t, v) for a, (t, v) in zip(ft.args, args))
                ce = '%s(%s)' % (cname(fn), al)
                if not isinstance(rt, TVoid) and dst is not None:
                    loc[dst] = s.ctype(rt)
                    ce = '%s = %s' % (s.lv(dst), ce)
                parts.append('if ((void*)%s == (void*)&%s) { %s; }' % (fp, cname(fn), ce))
            parts.append('{ __CPROVER_assert(0, "ll2c: virtual call through slot %d has no known target"); __CPROVER_assume(0); }' % s.vslot[callee])
            return ' else '.join(parts)
        elif s.opts.get('devirt', True):
            # indirect call through a plain function pointer (std::function invoker/manager, callbacks):
            # explicit dispatch over the defined functions of exactly this LLVM type -- CBMC's own
            # signature-compatibility over-approximation makes std::function recurse into unrelated code.
            sig = repr(TFn(rt, [t for t, _ in args], False))
            cands = [fn for fn, ft in s.m.fsigs.items() if repr(ft) == sig and not fn.startswith('@llvm.') and (s.keep is None or fn in s.keep)
                     and any(f2['name'] == fn and f2['blocks'] is not None for f2 in s.m.funcs)]
            fp = s.lv(callee) if not callee.startswith('@') else cname(callee)
            parts = []
            for fn in cands:
                ce = '%s(%s)' % (cname(fn), A)
                if not isinstance(rt, TVoid) and dst is not None:
                    loc[dst] = s.ctype(rt)
                    ce = '%s = %s' % (s.lv(dst), ce)
                parts.append('if ((void*)%s == (void*)&%s) { %s; }' % (fp, cname(fn), ce))
            parts.append('{ __CPROVER_assert(0, "ll2c: indirect call has no known target of its type"); __CPROVER_assume(0); }')
            return ' else '.join(parts)
        else:
            e = '%s(%s)' % (s.lv(callee), A)
        if isinstance(rt, TVoid): return e + ';'
        if dst is None: return e + ';'
        return setv(rt, e)


if __name__ == '__main__':
    import argparse
    ap = argparse.ArgumentParser()
    ap.add_argument('ll'); ap.add_argument('-o'); ap.add_argument('--overflow', action='store_true')
    ap.add_argument('--roots', default='')
    ap.add_argument('--stubs-out', default='')
    ap.add_argument('--funcs-out', default='')
    a = ap.parse_args()
    m = Module(open(a.ll).read())
    e = Emit(m, dict(overflow=a.overflow, roots=[r for r in a.roots.split(',') if r]))
    c = e.run()
    if a.funcs_out:
        import subprocess
        names = [f['name'][1:].strip('"') for f in m.funcs if f['blocks'] is not None and (e.keep is None or f['name'] in e.keep)]
        try:
            dem = subprocess.run(['c++filt'], input='\n'.join(names), capture_output=True, text=True).stdout
        except Exception:
            dem = '\n'.join(names)
        open(a.funcs_out, 'w').write(dem)
    if a.stubs_out:
        open(a.stubs_out, 'w').write('\n'.join(e.stubs) + '\n')
    open(a.o, 'w').write(c) if a.o else sys.stdout.write(c)
