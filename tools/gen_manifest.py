#!/usr/bin/env python3
"""Regenerates /verif/MANIFEST.json from the table below (claimed checks) + not_applicable reasons."""
import json, os
ROOT = os.path.dirname(os.path.dirname(os.path.abspath(__file__)))
ids = [json.loads(l)['id'] for l in open(os.path.join(ROOT, 'properties.jsonl'))]
TECH = 'bounded symbolic execution of the real C++ (clang IR -> ll2c C -> CBMC/SAT), counterexamples replayed on the real Qt build'
NOTE = ('Trusted base: qtmodel (fixed-capacity executable stand-ins for the Qt classes used, validated by `./vf conform` against real Qt), '
        'll2c IR->C translator, clang-14 -O0 IR semantics, CBMC 6.11 + SAT back end; everything outside the stated bounds (evidence: coverage.bounds/outside) is not claimed.')
CLAIMS = {
 'C01': ('model_checking', 'For every handler tree within the bound (kinds, parameters, verdicts, scoped flags, shared handlers and the incoming message state are solver variables) the real Pipeline::process and the per-kind process() adapters deliver to every recording sink exactly what a reference interpreter written from the statement predicts, and leave exactly the predicted residual message state.', '4/C01'),
 'C02': ('model_checking', 'Every nested-preemption schedule (bounded depth/rounds) of producer threads logging through the installed real Logger (processMessage, OwnThreadHandler::process, Pipeline::process, SeqNumberAttr) is decided: at most one thread inside the pipeline, exactly-once delivery, per-thread order, consecutive sequence numbers. Counterexamples replay natively on the real code over the sequentialised Qt model, not on OS threads.', '3.6 and 5'),
 'C11': ('model_checking', 'For every number/size of earlier messages and every write-buffer threshold within the bounds, after processMessage(QtFatalMsg) on a synchronous logger the DURABLE bytes of the file sink equal all records (file-system model with user-space buffer). Found and confirmed the missing flush, now fixed.', '5/C11'),
 'C12': ('model_checking', 'parseFormatSpec for every spec string and applyPadding for every value/fill/align/width/mode within the bounds are decided against the documented grammar; parsePattern+format are decided end to end on 13 concrete pattern skeletons with fully symbolic values (every UTF-16 unit, incl. U+200B, %, {, }, surrogates) against a reference formatter written from the docs. Found and confirmed the in-band U+200B marker defect, now fixed.', '4/C12'),
 'C13': ('model_checking', 'For every message / attribute set within the bounds the real JsonFormatter::format + LogMessage::allAttributes hand the serializer exactly one object with the 8 built-in fields and every custom attribute, values intact, and request compact output iff configured. The JSON TEXT (syntax, escaping, one line) is Qt-internal and assumed by contract - stated in evidence.outside.', '4/C13'),
 'C15': ('model_checking', 'For every rule pattern / category / type within the bounds the real CategoryFilter (constructor, parseRules, matches, filter) agrees with a glob-based ordered-rules reference; the regular-expression engine is the conformance-tested regex model (closed form for the rule-line expression, position-automaton for the escaped category expressions).', '4/C15'),
 'C18': ('model_checking', 'For every message, category case and attribute set within the bounds the event object built by the real SentryFormatter::format has the required fields, level mapping, logger rule, fingerprint and routes every custom attribute to exactly one slot; id / timestamp text forms are Qt (assumed).', '4/C18'),
 'C16': ('model_checking', 'For all (type,threshold) pairs, all text sequences / counter states within the bounds, the solver shows the real LevelFilter, DuplicateFilter and SeqNumberAttr agree with reference automata written from the statement; inductive one-step harnesses from an arbitrary state extend the sequence claim to any length. RegExpFilter is decided only up to the regex model (Qt/PCRE assumed).', '4/C16'),
 'C17': ('model_checking', 'For every call sequence within the bound, and for ONE call from every sorted list (inductive step), the real SortedPipeline code (with libstdc++ find_if compiled from source) yields exactly the stable-by-class-rank list; found and confirmed the reversed-range defect, now fixed.', '4/C17'),
}
NA = {}
checks = []
for i in ids:
    if i in CLAIMS:
        lvl, text, ref = CLAIMS[i]
        checks.append(dict(property_id=i, quick_cmd='./vf check %s --tier quick' % i, thorough_cmd='./vf check %s --tier thorough' % i,
                           evidence_file='evidence/%s.json' % i, replay_cmd_template='./vf replay {path}', engine='vf',
                           level_claimed=dict(category=lvl, text=text, design_ref='DESIGN.md section ' + ref), level_note=NOTE, technique=TECH))
na = [dict(property_id=i, reason=NA.get(i, 'check not built yet (work in progress; see DESIGN.md section 8 build order)')) for i in ids if i not in CLAIMS]
m = dict(version=1, setup_cmd='./setup.sh',
         hooks=dict(guard='QTLOGGER_VERIF', enable='-DQTLOGGER_VERIF (no hooks are needed so far: harness TUs include the real sources directly)',
                    baseline_off_cmd='cmake --build /repo/_build -- -k 0 >/dev/null 2>&1; ctest --test-dir /repo/_build -j8 --timeout 900', source_commits=[], add_only=True),
         engines=[dict(name='vf', path='vf', serves_properties=sorted(CLAIMS), kind_free_text='clang-14 IR -> ll2c (own IR->C translator) -> CBMC 6.11 bounded model checking; replay on the real Qt build with g++')],
         checks=checks, not_applicable=na,
         notes='See DESIGN.md. Exit codes of ./vf check: 0 held, 1 VIOLATION (replay-confirmed), 2 inconclusive (never reported as held).')
json.dump(m, open(os.path.join(ROOT, 'MANIFEST.json'), 'w'), indent=1)
print('claimed:', sorted(CLAIMS))
