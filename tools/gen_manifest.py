#!/usr/bin/env python3
"""Regenerates /verif/MANIFEST.json from the table below (claimed checks) + not_applicable reasons."""
import json, os
ROOT = os.path.dirname(os.path.dirname(os.path.abspath(__file__)))
ids = [json.loads(l)['id'] for l in open(os.path.join(ROOT, 'properties.jsonl'))]
TECH = 'bounded symbolic execution of the real C++ (clang IR -> ll2c C -> CBMC/SAT), counterexamples replayed on the real Qt build'
NOTE = ('Trusted base: qtmodel (fixed-capacity executable stand-ins for the Qt classes used, validated by `./vf conform` against real Qt), '
        'll2c IR->C translator, clang-14 -O0 IR semantics, CBMC 6.11 + SAT back end; everything outside the stated bounds (evidence: coverage.bounds/outside) is not claimed.')
CLAIMS = {
 'C01': ('model_checking', 'For every handler tree within the bound (kinds, parameters, verdicts, scoped flags, shared handlers and the incoming message state are solver variables) the real Pipeline::process and the per-kind process() adapters deliver to every recording sink exactly what a reference interpreter written from the statement predicts, and leave exactly the predicted residual message state.', '4/C01'),
 'C02': ('model_checking', 'Every nested-preemption schedule (bounded depth/rounds) of producer threads logging through the installed real Logger (processMessage, OwnThreadHandler::process, Pipeline::process, SeqNumberAttr) is decided: at most one thread inside the pipeline, exactly-once delivery, per-thread order, consecutive sequence numbers. Counterexamples replay natively on the real code over the sequentialised Qt model, not on OS threads.', '3.6 and 5'),
 'C03': ('model_checking', 'With the logger moved to its own thread, every nested-preemption schedule (bounded) of a producer and the worker event loop is decided: sinks see type, text, file, line, function, category and originating thread id exactly as logged although the caller frees its buffers right after each call, all handler work runs under the worker thread id, delivery is FIFO and respects real-time order (event priorities of the Qt queue are modelled). Counterexamples replay natively on the real code over the sequentialised Qt model.', '3.6 and 5'),
 'C08': ('model_checking', 'For every file content within the bound the real compressFile + table-driven calculateCRC32 produce (over the file-system model and the RFC-1950 framing contract of qCompress) a file that an independent gunzip (framing + bitwise reference CRC-32; zlib on replay) decodes to exactly the original bytes, and the original is removed afterwards. Whole rotation histories are not decided (no verdict within the budget).', '5 and 8'),
 'C11': ('model_checking', 'For every number/size of earlier messages and every write-buffer threshold within the bounds, after processMessage(QtFatalMsg) on a synchronous logger the DURABLE bytes of the file sink equal all records (file-system model with user-space buffer). Found and confirmed the missing flush, now fixed.', '5/C11'),
 'C19': ('model_checking', 'ONLY the handler-history clause is decided: for every history (bounded) of install / restore / foreign qInstallMessageHandler calls the active Qt handler is the one the rule prescribes (real Logger::installMessageHandler / restorePreviousMessageHandler). The configuration front-ends (INI keys, one-line configure(), end-to-end outputs) are NOT decided by this check.', '8'),
 'C12': ('model_checking', 'parseFormatSpec for every spec string and applyPadding for every value/fill/align/width/mode within the bounds are decided against the documented grammar; parsePattern+format are decided end to end on 13 concrete pattern skeletons with fully symbolic values (every UTF-16 unit, incl. U+200B, %, {, }, surrogates) against a reference formatter written from the docs. Found and confirmed the in-band U+200B marker defect, now fixed.', '4/C12'),
 'C13': ('model_checking', 'For every message / attribute set within the bounds the real JsonFormatter::format + LogMessage::allAttributes hand the serializer exactly one object with the 8 built-in fields and every custom attribute, values intact, and request compact output iff configured. The JSON TEXT (syntax, escaping, one line) is Qt-internal and assumed by contract - stated in evidence.outside.', '4/C13'),
 'C14': ('model_checking', 'Within the stated input sizes the solver shows that FunctionToken::cleanup, PrettyFormatter::format (from any internal state) and CategoryFilter (any rule text) violate no Qt precondition (index ranges, empty-container access), no pointer/bounds/overflow check of CBMC and terminate within the loop bounds (unwinding assertions); allocation sizes driven by numbers in the pattern are observed (open known finding). Larger inputs (the property speaks of 64 KiB) are outside what bounded bit-precise checking reaches.', '5/C14'),
 'C15': ('model_checking', 'For every rule pattern / category / type within the bounds the real CategoryFilter (constructor, parseRules, matches, filter) agrees with a glob-based ordered-rules reference; the regular-expression engine is the conformance-tested regex model (closed form for the rule-line expression, position-automaton for the escaped category expressions).', '4/C15'),
 'C18': ('model_checking', 'For every message, category case and attribute set within the bounds the event object built by the real SentryFormatter::format has the required fields, level mapping, logger rule, fingerprint and routes every custom attribute to exactly one slot; id / timestamp text forms are Qt (assumed).', '4/C18'),
 'C16': ('model_checking', 'For all (type,threshold) pairs, all text sequences / counter states within the bounds, the solver shows the real LevelFilter, DuplicateFilter and SeqNumberAttr agree with reference automata written from the statement; inductive one-step harnesses from an arbitrary state extend the sequence claim to any length. RegExpFilter is decided only up to the regex model (Qt/PCRE assumed).', '4/C16'),
 'C17': ('model_checking', 'For every call sequence within the bound, and for ONE call from every sorted list (inductive step), the real SortedPipeline code (with libstdc++ find_if compiled from source) yields exactly the stable-by-class-rank list; found and confirmed the reversed-range defect, now fixed.', '4/C17'),
}
NA = {
 'C04': 'harness and model exist (harness/CONC, VF_PROP=4; qtmodel/qm_thread_full.h) but no job returned a verdict within 40 minutes; see DESIGN.md section 8',
 'C05': 'file-system model, harness (harness/FS/fs.cpp) and a real-vs-model differential run exist, but CBMC returns no verdict within 25-40 minutes even for histories of 2 writes (string capacity 48 forced by a 47-character pattern literal); DESIGN.md section 8',
 'C06': 'same harness as C05 (VF_PROP=6): no verdict within the time budget; DESIGN.md section 8',
 'C07': 'same harness as C05 (VF_PROP=7): no verdict within the time budget; DESIGN.md section 8',
 'C09': 'same harness as C05 (VF_PROP=9): no verdict within the time budget; DESIGN.md section 8',
 'C10': 'the file-system model has crash/fault injection but no finished harness; a real-build replay would need an LD_PRELOAD shim; DESIGN.md section 8',
 'C20': 'byte equality between a file and a script output has no input to make symbolic, so a solver cannot decide it; a byte diff would be a different technique (DESIGN.md section 8)',
}
checks = []
for i in ids:
    if i in CLAIMS:
        lvl, text, ref = CLAIMS[i]
        checks.append(dict(property_id=i, quick_cmd='./vf check %s --tier quick' % i, thorough_cmd='./vf check %s --tier thorough' % i,
                           evidence_file='evidence/%s.json' % i, replay_cmd_template='./vf replay {path}', engine='vf',
                           level_claimed=dict(category=lvl, text=text, design_ref='DESIGN.md section ' + ref), level_note=NOTE, technique=TECH))
na = [dict(property_id=i, reason=NA.get(i, 'check not built yet (work in progress; see DESIGN.md section 8 build order)')) for i in ids if i not in CLAIMS]
m = dict(version=1, setup_cmd='./setup.sh',
         hooks=dict(guard='QTLOGGER_VERIF', enable='-DQTLOGGER_VERIF (no hooks are needed so far: harness TUs include the real sources directly)',
                    baseline_off_cmd='cmake --build /repo/_build -- -k 0 >/dev/null 2>&1; ctest --test-dir /repo/_build -j8 --timeout 900', source_commits=[], add_only=True),
         engines=[dict(name='vf', path='vf', serves_properties=sorted(CLAIMS), kind_free_text='clang-14 IR -> ll2c (own IR->C translator) -> CBMC 6.11 bounded model checking; replay on the real Qt build with g++')],
         checks=checks, not_applicable=na,
         notes='See DESIGN.md. Exit codes of ./vf check: 0 held, 1 VIOLATION (replay-confirmed), 2 inconclusive (never reported as held).')
json.dump(m, open(os.path.join(ROOT, 'MANIFEST.json'), 'w'), indent=1)
print('claimed:', sorted(CLAIMS))
