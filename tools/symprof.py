#!/usr/bin/env python3
"""Symex profiler: reads `cbmc ... --verbosity 10` output on stdin (one "BMC at file F line N function G" line per symbolic
execution step), attributes wall-clock time between lines to the function / generated-C line being executed.
usage (in a job's work directory kept with VF_KEEP=1):
  eval "timeout 300 $(sed -e 's/--json-ui //' -e 's/--trace //' cmd.txt | tr -d '\\n') --verbosity 10" 2>&1 | python3 /verif/tools/symprof.py 280"""
import sys, time, re, collections
t0=time.time(); last=t0; cur='?'; acc=collections.Counter(); cnt=collections.Counter(); lineacc=collections.Counter()
lim=float(sys.argv[1]) if len(sys.argv)>1 else 120
curline=None
for line in sys.stdin:
    now=time.time()
    acc[cur]+=now-last; lineacc[(cur,curline)]+=now-last; last=now
    m=re.match(r'BMC at file \S+ line (\d+)(?: function (\S+))?', line)
    if m: cur=m.group(2) or '<init>'; curline=m.group(1); cnt[cur]+=1
    if now-t0>lim: break
for k,v in acc.most_common(25): print('%8.2f s %7d  %s'%(v,cnt[k],k))
print('--- hot lines')
for (f,l),v in lineacc.most_common(15): print('%8.2f s  %s:%s'%(v,f,l))
print('total',time.time()-t0, 'last fn', cur, curline)
