#!/bin/bash
# usage: native.sh <src.cpp> <fn> [-Dx=y ...] : build the MODEL route natively (clang -> ll2c -> gcc) for debugging; exe: /tmp/w/native/<fn>
src=$1; fn=$2; shift; shift
W=/tmp/w/native; mkdir -p $W
clang++-14 -std=c++17 -O0 -Xclang -disable-O0-optnone -fno-exceptions -w -DQTLOGGER_STATIC -DVF_CONCRETE "$@" -I /verif/qtmodel -I /verif/harness/common -I ${VF_REPO:-/repo}/src/qtlogger -S -emit-llvm $src -o $W/n.ll || exit 1
opt-14 -passes='function(mem2reg,simplifycfg)' -S $W/n.ll -o $W/no.ll || exit 1
python3 /verif/ll2c/ll2c.py $W/no.ll -o $W/$fn.c --roots $fn || exit 1
gcc -O0 -g -w -c -I /verif/ll2c $W/$fn.c -o $W/$fn.o || exit 1
cat > $W/out.cpp <<'EOT'
#include <cstdio>
extern "C" void vf_out_int(long long v) { printf("%lld\n", v); }
EOT
g++ -O0 -g -w -DVF_LL2C -DVF_HARNESS=$fn /verif/replay/vf_rt.cpp $W/out.cpp $W/$fn.o -o $W/$fn && echo built $W/$fn
