#!/bin/bash
# usage: verify_seed.sh <PROP> <VARIANT>   -- confirms a sub-agent's seeded change in its scratch worktree /tmp/mut/<PROP>
# (compiles, test suite passes, demo fails with the change and passes without), then stores it under /verif/seeded/.
P=$1; V=$2; W=/tmp/mut/$P; O=$W/OUT/$V; D=/verif/seeded/$P-$V
set -u
cd $W || exit 2
git checkout -q -- . ; git apply --check $O/patch.diff || { echo "patch does not apply"; exit 2; }
git apply $O/patch.diff
cmake --build _build -- -k 0 >/dev/null 2>&1
TESTS=$(ctest --test-dir _build -j4 --timeout 900 2>&1 | grep -E "tests passed|tests failed" | head -1)
( cd $O && sh build.sh >/dev/null 2>&1 ); DEMOEXE=$(ls -t $O | grep -E "^demo$|demo_bin|\.out$" | head -1)
EXE=$(find $O -maxdepth 1 -type f -executable ! -name "*.sh" | head -1)
$EXE > $O/with.log 2>&1; RC_WITH=$?
git checkout -q -- . ; cmake --build _build -- -k 0 >/dev/null 2>&1
( cd $O && sh build.sh >/dev/null 2>&1 )
EXE=$(find $O -maxdepth 1 -type f -executable ! -name "*.sh" | head -1)
$EXE > $O/without.log 2>&1; RC_WITHOUT=$?
echo "$P-$V tests_with_change: $TESTS ; demo rc with=$RC_WITH without=$RC_WITHOUT"
mkdir -p $D && cp $O/patch.diff $O/demo.cpp $O/build.sh $O/README.md $D/ 2>/dev/null
echo "{\"tests_with_change\": \"$TESTS\", \"demo_rc_with_change\": $RC_WITH, \"demo_rc_without\": $RC_WITHOUT}" > $D/verify.json
