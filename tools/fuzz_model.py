#!/usr/bin/env python3
"""Sanity tool (NOT a check): build a harness natively over the Qt MODEL (clang -> ll2c -> gcc) and run random nondet streams.
usage: fuzz_model.py <PID> <job> [n] [seed]"""
import sys, os, random, importlib.machinery, importlib.util, shutil
ROOT = os.path.dirname(os.path.dirname(os.path.abspath(__file__)))
ld = importlib.machinery.SourceFileLoader('vf', os.path.join(ROOT, 'vf'))
spec = importlib.util.spec_from_loader('vf', ld); vf = importlib.util.module_from_spec(spec); ld.exec_module(vf)
pid, jn = sys.argv[1], sys.argv[2]; n = int(sys.argv[3]) if len(sys.argv) > 3 else 200; seed = int(sys.argv[4]) if len(sys.argv) > 4 else 1
sp = vf.load_spec(pid)
d = [j for j in sp.JOBS if j['name'] == jn][0]
work = '/tmp/w/fuzzm_%s_%s' % (pid, jn); shutil.rmtree(work, ignore_errors=True); os.makedirs(work)
job = vf.Job(pid, d, 'quick', work)
exe, err = vf.model_native_build(job, work)
if not exe: print(err); sys.exit(2)
rnd = random.Random(seed); stats = {'ok': 0, 'assume': 0, 'fail': 0}
for i in range(n):
    vals = [rnd.choice([0, 1, 2, 3, rnd.randint(0, 14), rnd.randint(-2, 70000)]) for _ in range(80)]
    rr = vf.real_run(exe, vals, work)
    if rr['assume_false']: stats['assume'] += 1
    elif rr['asserts'] or rr['crashed']:
        stats['fail'] += 1
        if stats['fail'] <= 5: print('FAIL', vals[:40], rr['asserts'], rr['out'][-300:] if rr['crashed'] else '')
    else: stats['ok'] += 1
print(stats)
