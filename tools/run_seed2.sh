#!/bin/bash
# usage: run_seed2.sh <PROP> <VARIANT> <worktree> [job,job...]  -- runs ./vf check <PROP> against a scratch worktree with the seeded change applied
P=$1; V=$2; W=$3; JOBS=${4:-}; D=/verif/seeded/$P-$V
cd $W && git checkout -q -- . && git apply $(ls $D/patch_rebased*.diff 2>/dev/null || echo $D/patch.diff) || exit 2
mkdir -p /tmp/w/seedev_$P$V /tmp/w/seedrp_$P$V
cd /verif && VF_ONLY=$JOBS VF_REPO=$W VF_EVIDENCE_DIR=/tmp/w/seedev_$P$V VF_REPLAY_DIR=/tmp/w/seedrp_$P$V ./vf check $P --tier ${TIER:-quick} 2>&1 | cut -c1-500 | tee $D/check_output.txt
RC=${PIPESTATUS[0]}
cd $W && git checkout -q -- .
echo "exit=$RC" | tee -a $D/check_output.txt
