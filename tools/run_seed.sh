#!/bin/bash
# usage: run_seed.sh <PROP> <VARIANT> [tier]  -- runs ./vf check <PROP> against the scratch worktree with the seeded change applied
P=$1; V=$2; T=${3:-quick}; W=/tmp/mut/$P; D=/verif/seeded/$P-$V
cd $W && git checkout -q -- . && git apply $(ls $D/patch_rebased*.diff 2>/dev/null || echo $D/patch.diff) || exit 2
mkdir -p /tmp/w/seedev /tmp/w/seedrp
cd /verif && VF_REPO=$W VF_EVIDENCE_DIR=/tmp/w/seedev VF_REPLAY_DIR=/tmp/w/seedrp ./vf check $P --tier $T 2>&1 | cut -c1-400 | tee $D/check_output.txt
RC=${PIPESTATUS[0]}
cd $W && git checkout -q -- .
echo "exit=$RC" | tee -a $D/check_output.txt
