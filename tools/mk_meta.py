#!/usr/bin/env python3
"""(re)writes seeded/<id>/meta.json from the table below + verify.json (our own confirmation) + check_output.txt (the check run against the change)."""
import json, os, re
ROOT = os.path.dirname(os.path.dirname(os.path.abspath(__file__)))
T = {
 'C02-A': ('C02', 'TimedMutexLocker: tryLock(3000) and carry on WITHOUT the lock on timeout, in OwnThreadHandler::process and Logger::processMessage', 'a sink that blocks longer than the timeout while a second thread logs'),
 'C03-A': ('C03', 'critical / fatal messages are posted to the worker with Qt::HighEventPriority', 'a critical message logged after a normal one while the normal one is still queued'),
 'C04-A': ('C04', 'resetOwnThread skips the drain loop when "called on the own thread" but compares with the wrong thread (m_thread->thread())', 'a backlog of posted messages when asynchronous logging is stopped from the thread that created the logger'),
 'C05-A': ('C05', 'rotate(): close() hoisted above the early return of single-file mode (maxFileCount == 1); the file is never reopened', 'maxFileCount == 1 together with a rotation trigger (size / daily / startup)'),
 'C05-B': ('C05', 'findNextIndexForDate takes the LAST entry of the name-sorted listing + 1 instead of the numeric maximum', 'rotated files .9 and .10 (two-digit index) of the same date with compression on: index 10 is reused and compressFile truncates the existing .10.gz'),
 'C06-A': ('C06', 'findRotatedFiles relies on the name-sorted listing instead of ordering by modification time (rebased onto the C06 fix: patch_rebased_4ae3a50.diff)', 'rotated files whose name order differs from their age (.9 / .10, or dates out of order) when the retention limit is reached'),
 'C07-A': ('C07', 'size check uses QString::size() (UTF-16 units) instead of the UTF-8 byte count', 'records with multi-byte characters close to the size limit'),
 'C08-A': ('C08', 'compressFile opens the rotated log with QIODevice::Text: payload and CRC lose every CR, ISIZE does not', 'a carriage-return byte in the log'),
 'C09-A': ('C09', 'init(): startup rotation runs before m_currentLogDate is derived from the active file, so the rotated name carries today instead of the day of the records', 'restart with RotationOnStartup over an active file last written on an earlier day'),
 'C09-B': ('C09', 'findNextIndexForDate counts .gz rotated files only when the sink itself compresses', 'compressed rotated files of the day left by an earlier run, sink without compression: the index restarts at 1'),
 'C10-A': ('C10', 'rotate() reopens the active file with Truncate instead of Append', 'a failing rename during rotation: the un-rotated active file is wiped'),
 'C11-A': ('C11', 'recursiveFlush switches on handler type and stops after the first nested pipeline', 'file sink inside the second of two nested pipelines, fatal message'),
}
for sid, (prop, desc, needs) in T.items():
    d = os.path.join(ROOT, 'seeded', sid)
    if not os.path.isdir(d): continue
    ver = json.load(open(os.path.join(d, 'verify.json'))) if os.path.exists(os.path.join(d, 'verify.json')) else {}
    out = open(os.path.join(d, 'check_output.txt')).read() if os.path.exists(os.path.join(d, 'check_output.txt')) else ''
    m = dict(property=prop, description=desc, needs_to_manifest=needs,
             confirmed=dict(ver, how='patch applied in a scratch worktree of /repo, cmake build, ctest (18 executables, 349 tests), the sub-agent\'s demo built and run with and without the change'),
             check_run=dict(cmd='tools/run_seed2.sh (or run_seed.sh): VF_REPO=<scratch worktree with the patch applied> ./vf check %s [VF_ONLY=<job>]' % prop, output=out[-3000:],
                            detected=('VIOLATION property=' + prop) in out) if out else dict(cmd='not run', output='', detected=None))
    json.dump(m, open(os.path.join(d, 'meta.json'), 'w'), indent=1)
    print(sid, m['check_run']['detected'])
