#!/bin/sh
# Offline setup: nothing to download or build ahead of time; every check rebuilds from /repo's working tree.
# Sanity-check the toolchain so that a broken sandbox fails here and not inside a check.
set -e
cd "$(dirname "$0")"
for t in clang++-14 opt-14 cbmc g++ python3 c++filt; do command -v $t >/dev/null || { echo "missing tool: $t"; exit 1; }; done
mkdir -p evidence replays .work
echo "setup ok"
